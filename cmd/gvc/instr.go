package main

// Instruction semantics.

import (
	"fmt"
	"go/constant"
	"go/token"
	"go/types"
	"math/big"

	"golang.org/x/tools/go/ssa"
)

func (fr *Frame) execBlock(b *ssa.BasicBlock, reach Term, st *State, incoming []Edge) {
	c := fr.x.ctx
	fr.reach = c.Name(fmt.Sprintf("R_%s_b%d", fr.fn.Name(), b.Index), reach)
	st = st.Clone()
	fr.cur = st
	fr.curBlock = b
	fr.incoming = incoming
	fr.dead = false
	for _, in := range b.Instrs {
		if in.Pos().IsValid() {
			fr.curInstrPos = in.Pos()
		}
		fr.execInstr(in)
		if fr.dead {
			return
		}
	}
}

func (fr *Frame) val(v ssa.Value) *Value {
	if r, ok := fr.vals[v]; ok {
		return r
	}
	switch n := v.(type) {
	case *ssa.Const:
		return fr.constVal(n)
	case *ssa.Global:
		return &Value{T: n.Type(), C: []Term{IntLit(-7)}, P: &Ptr{Global: n, RootT: derefT(n.Type())}}
	case *ssa.Function:
		return &Value{T: n.Type(), C: []Term{IntLit(int64(fr.x.eng.funcID(n)))}}
	case *ssa.Builtin:
		return &Value{T: n.Type(), C: []Term{IntLit(0)}}
	case *ssa.FreeVar:
		if fv, ok := fr.freeVars[n]; ok {
			return fv
		}
		fr.unsupported("free variable %s without binding", n.Name())
	case *ssa.Parameter:
		fr.unsupported("parameter %s unbound", n.Name())
	}
	fr.unsupported("value %s (%T) used before definition", v.Name(), v)
	return nil
}

func (e *Engine) funcID(fn *ssa.Function) int {
	if id, ok := e.funcIDs[fn]; ok {
		return id
	}
	id := 1000000 + len(e.funcIDs)
	e.funcIDs[fn] = id
	e.funcByID[id] = fn
	return id
}

func (fr *Frame) constVal(n *ssa.Const) *Value {
	e := fr.x.eng
	t := n.Type()
	if n.Value == nil {
		return e.zeroValue(t)
	}
	switch n.Value.Kind() {
	case constant.Bool:
		return &Value{T: t, C: []Term{BoolLit(constant.BoolVal(n.Value))}}
	case constant.Int:
		bi, _ := new(big.Int).SetString(n.Value.ExactString(), 10)
		if b, ok := t.Underlying().(*types.Basic); ok && b.Info()&types.IsInteger == 0 {
			return &Value{T: t, C: []Term{fr.x.ctx.Fresh("fconst", SInt)}}
		}
		return &Value{T: t, C: []Term{BigLit(bi)}}
	case constant.String:
		v := constValue(fr.x, n.Value, t)
		v.T = t
		return v
	}
	// floats, complex: opaque
	return e.freshValue(fr.x.ctx, "const", t)
}

func (fr *Frame) set(v ssa.Value, val *Value) { fr.vals[v] = val }

func (fr *Frame) execInstr(in ssa.Instruction) {
	x := fr.x
	e := x.eng
	c := x.ctx
	st := fr.cur
	switch n := in.(type) {
	case *ssa.DebugRef:
	case *ssa.Alloc:
		el := derefT(n.Type())
		if !n.Heap {
			x.setLocal(st, n, e.zeroValue(el))
			fr.set(n, &Value{T: n.Type(), C: []Term{IntLit(-7)}, P: &Ptr{Local: n, RootT: el}})
			return
		}
		ref := x.newRef(st, "new_"+n.Name())
		p := &Value{T: n.Type(), C: []Term{ref}}
		x.Store(st, x.ptrOf(p), e.zeroValue(el))
		if at, ok := el.Underlying().(*types.Array); ok && !isGhostType(el) {
			if l := e.layout(at.Elem()); len(l) == 1 && l[0].Sort == SInt {
				// a zeroed array object (also what make([]T, const) lowers to)
				if st.content == nil {
					st.content = map[string]*contentRec{}
				}
				st.content[ref.S] = &contentRec{off: IntLit(0), ln: IntLit(at.Len()), seq: &SeqV{Len: IntLit(at.Len()), At: func(i Term) Term { return IntLit(0) }}}
			}
		}
		fr.set(n, p)
	case *ssa.Store:
		addr := fr.val(n.Addr)
		v := fr.val(n.Val)
		p := x.ptrOf(addr)
		fr.nilCheck(addr, "store")
		if v.P != nil && (p.Local == nil || len(p.Path) > 0) {
			// storing an engine-level pointer into memory: lose precision
			if pv := fr.proxyFor(v); pv != nil {
				v = pv
			} else {
				c.Note(fmt.Sprintf("%s: engine-level pointer stored to memory (opaque)", fr.fn.Name()))
				v = &Value{T: v.T, C: []Term{c.Fresh("optr", SInt)}}
			}
		}
		if lt := x.locType(x.normPtr(p)); len(e.layout(lt)) != len(v.C) {
			fr.unsupported("store shape mismatch %v (%d comps) <- %v (%d comps) at %s", lt, len(e.layout(lt)), v.T, len(v.C), n.String())
		}
		x.Store(st, p, v)
	case *ssa.UnOp:
		fr.unop(n)
	case *ssa.BinOp:
		fr.set(n, fr.binop(n.Op, fr.val(n.X), fr.val(n.Y), n.Type(), n))
	case *ssa.FieldAddr:
		xv := fr.val(n.X)
		fr.nilCheck(xv, "field "+fieldName(n.X.Type(), n.Field))
		p := *x.ptrOf(xv)
		p.Path = append(append([]PathEl(nil), p.Path...), PathEl{Field: n.Field})
		np := x.normPtr(&p)
		idt := IntLit(-7) // address of a field of a local/global: never nil
		if np.Local == nil && np.Global == nil {
			idt = np.Heap // interior pointer: nil-ness follows the enclosing object
		}
		out := &Value{T: n.Type(), C: []Term{idt}, P: np}
		fr.set(n, out)
		fr.guardCheck(n, xv, &p, np)
	case *ssa.Field:
		xv := fr.val(n.X)
		stt := xv.T.Underlying().(*types.Struct)
		off, cnt := e.fieldRange(stt, n.Field)
		fr.set(n, e.sub(xv, off, cnt, n.Type()))
	case *ssa.IndexAddr:
		fr.indexAddr(n)
	case *ssa.Index:
		xv := fr.val(n.X)
		i := fr.val(n.Index).term()
		switch u := xv.T.Underlying().(type) {
		case *types.Array:
			fr.safety("bounds", And(Le(IntLit(0), i), Lt(i, IntLit(u.Len()))), "array-index")
			l := e.layout(u.Elem())
			out := &Value{T: n.Type(), C: make([]Term, len(l))}
			for j := range l {
				out.C[j] = Select(xv.C[j], i)
			}
			fr.set(n, out)
		case *types.Basic: // string
			fr.safety("bounds", And(Le(IntLit(0), i), Lt(i, xv.C[2])), "string-index")
			fr.set(n, fr.byteRead(Select(xv.C[0], Add(xv.C[1], i.Sealed())), n.Type()))
		default:
			fr.unsupported("Index on %v", xv.T)
		}
	case *ssa.Lookup:
		xv := fr.val(n.X)
		if isString(xv.T) {
			i := fr.val(n.Index).term()
			fr.safety("bounds", And(Le(IntLit(0), i), Lt(i, xv.C[2])), "string-index")
			fr.set(n, fr.byteRead(Select(xv.C[0], Add(xv.C[1], i.Sealed())), n.Type()))
			return
		}
		fr.set(n, fr.mapLookup(n, xv, fr.val(n.Index)))
	case *ssa.Slice:
		fr.sliceOp(n)
	case *ssa.MakeSlice:
		ln := fr.val(n.Len).term()
		cp := fr.val(n.Cap).term()
		fr.safety("make", And(Le(IntLit(0), ln), Le(ln, cp), Le(cp, BigLit(pow2(47)))), "makeslice-len")
		fr.allocBound(cp)
		fr.set(n, fr.newSlice(n.Type(), ln, cp))
	case *ssa.MakeMap:
		ref := x.newRef(st, "map")
		if mt, ok := x.intKeyedMap(n.Type()); ok {
			x.newMapObject(st, mt, ref)
		}
		fr.set(n, &Value{T: n.Type(), C: []Term{ref}})
	case *ssa.MakeChan:
		fr.unsupported("channels")
	case *ssa.MakeClosure:
		ref := x.newRef(st, "closure")
		v := &Value{T: n.Type(), C: []Term{ref}}
		fr.set(n, v)
		fr.x.closures[n] = true
	case *ssa.MakeInterface:
		fr.set(n, fr.makeIface(n.Type(), fr.val(n.X)))
	case *ssa.ChangeInterface:
		xv := fr.val(n.X)
		fr.set(n, &Value{T: n.Type(), C: xv.C})
	case *ssa.ChangeType:
		xv := fr.val(n.X)
		fr.set(n, &Value{T: n.Type(), C: xv.C, P: xv.P})
		fr.implementsCheck(n, xv)
	case *ssa.Convert:
		fr.set(n, fr.convert(fr.val(n.X), n.Type()))
	case *ssa.MultiConvert:
		fr.set(n, fr.havocValue("mconv", n.Type()))
	case *ssa.SliceToArrayPointer:
		xv := fr.val(n.X)
		at := derefT(n.Type()).Underlying().(*types.Array)
		fr.safety("bounds", Ge(xv.C[2], IntLit(at.Len())), "slice-to-array-len")
		// pointer into the middle of a backing array is not representable unless off == 0
		fr.set(n, fr.havocValue("s2a", n.Type()))
		c.Note(fr.fn.Name() + ": slice-to-array-pointer conversion abstracted")
	case *ssa.TypeAssert:
		fr.typeAssert(n)
	case *ssa.Extract:
		tv := fr.val(n.Tuple)
		tt := tv.T.(*types.Tuple)
		off := 0
		for i := 0; i < n.Index; i++ {
			off += len(e.layout(tt.At(i).Type()))
		}
		cnt := len(e.layout(tt.At(n.Index).Type()))
		out := e.sub(tv, off, cnt, n.Type())
		if tv.Seq != nil {
			out.Seq = tv.Seq
		}
		fr.set(n, out)
	case *ssa.Phi:
		fr.phi(n)
	case *ssa.Call:
		fr.panicEdge(n)
		res := fr.call(n.Common(), n, n.Type())
		if res != nil {
			fr.set(n, res)
		}
	case *ssa.Defer:
		fr.defers = append(fr.defers, n)
	case *ssa.RunDefers:
		fr.runDefers()
	case *ssa.Go:
		fr.unsupported("go statement")
	case *ssa.Range:
		xv := fr.val(n.X)
		if isString(xv.T) {
			x.setLocal(st, n, &Value{T: types.Typ[types.Int], C: []Term{IntLit(0)}})
		} else if _, ok := x.intKeyedMap(xv.T); ok {
			// ghost set of keys already handed out by this iteration: initially empty
			row := c.Fresh("seen0", ArrOf(SBool))
			k := Term{S: "k$s", Sort: SInt}
			c.Assume(Forall([]Term{k}, Not(Select(row, k)), Select(row, k)))
			x.setLocal(st, n, &Value{T: nil, SK: "mapseen", C: []Term{row}})
		}
		fr.set(n, &Value{T: n.Type(), C: []Term{IntLit(0)}})
	case *ssa.Next:
		fr.next(n)
	case *ssa.MapUpdate:
		mv := fr.val(n.Map)
		fr.safety("nil", Neq(mv.C[0], IntLit(0)), "nil-map-write")
		x.mapUpdate(fr, mv, fr.val(n.Key), fr.val(n.Value))
	case *ssa.Send, *ssa.Select:
		fr.unsupported("channel operation")
	case *ssa.If:
		cv := fr.val(n.Cond).term()
		b := fr.curBlock
		fr.pushEdge(b, b.Succs[0], c.Name("e", And(fr.reach, cv)), st)
		fr.pushEdge(b, b.Succs[1], c.Name("e", And(fr.reach, Not(cv))), st)
	case *ssa.Jump:
		fr.pushEdge(fr.curBlock, fr.curBlock.Succs[0], fr.reach, st)
	case *ssa.Return:
		var vals []*Value
		for _, r := range n.Results {
			vals = append(vals, fr.val(r))
		}
		fr.rets = append(fr.rets, RetEdge{fr.reach, st, vals})
	case *ssa.Panic:
		if !x.cur.mayPanic {
			if x.cur.safety["panic"] || x.cur.safety["all"] {
				fr.obligation("panic", "explicit-panic-unreachable", fr.reach, TFalse, "panic(...)")
			}
		}
		fr.dead = true
	default:
		fr.unsupported("instruction %T", in)
	}
}

func fieldName(t types.Type, i int) string {
	if st, ok := derefT(t).Underlying().(*types.Struct); ok && i < st.NumFields() {
		return st.Field(i).Name()
	}
	return fmt.Sprint(i)
}

// byteRead wraps an element read with its range assumption.
func (fr *Frame) byteRead(t Term, typ types.Type) *Value {
	c := fr.x.ctx
	v := &Value{T: typ, C: []Term{c.Name("rd", t)}}
	c.Assume(fr.x.eng.typeInv(v, fr.cur.alloc))
	return v
}

func (fr *Frame) nilCheck(p *Value, what string) {
	if p.P != nil {
		if p.P.Local != nil || p.P.Global != nil {
			return
		}
		if p.P.Elem {
			return
		}
		fr.safety("nil", Neq(p.P.Heap, IntLit(0)), "nil-deref "+what)
		return
	}
	fr.safety("nil", Neq(p.C[0], IntLit(0)), "nil-deref "+what)
}

func (fr *Frame) havocValue(hint string, t types.Type) *Value {
	v := fr.x.eng.freshValue(fr.x.ctx, hint, t)
	fr.x.ctx.Assume(fr.x.eng.typeInv(v, fr.cur.alloc))
	return v
}

func (fr *Frame) newSlice(t types.Type, ln, cp Term) *Value {
	x := fr.x
	e := x.eng
	ref := x.newRef(fr.cur, "mk")
	el := t.Underlying().(*types.Slice).Elem()
	for j, cpn := range e.layout(el) {
		key, _ := e.heapKey("M", el, j)
		x.heapSetAt(fr.cur, key, x.ctx.Name("M", Store(x.heapGet(fr.cur, key), ref, zeroOf(ArrOf(cpn.Sort)))), ref)
	}
	if len(e.layout(el)) == 1 && e.layout(el)[0].Sort == SInt {
		if fr.cur.content == nil {
			fr.cur.content = map[string]*contentRec{}
		}
		fr.cur.content[ref.S] = &contentRec{off: IntLit(0), ln: ln, seq: &SeqV{Len: ln, At: func(i Term) Term { return IntLit(0) }}}
	}
	return &Value{T: t, C: []Term{ref, IntLit(0), ln, cp}}
}

func (fr *Frame) indexAddr(n *ssa.IndexAddr) {
	x := fr.x
	xv := fr.val(n.X)
	i := fr.val(n.Index).term()
	switch u := xv.T.Underlying().(type) {
	case *types.Slice:
		fr.safety("bounds", And(Le(IntLit(0), i), Lt(i, xv.C[2])), "slice-index")
		p := &Ptr{Heap: xv.C[0], Elem: true, RootT: u.Elem(), Idx: x.ctx.Name("ix", Add(xv.C[1], i.Sealed()))}
		fr.set(n, &Value{T: n.Type(), C: []Term{IntLit(0)}, P: p})
	case *types.Pointer:
		at := u.Elem().Underlying().(*types.Array)
		fr.nilCheck(xv, "array")
		fr.safety("bounds", And(Le(IntLit(0), i), Lt(i, IntLit(at.Len()))), "array-index")
		p := *x.ptrOf(xv)
		p.Path = append(append([]PathEl(nil), p.Path...), PathEl{Field: -1, Index: i})
		fr.set(n, &Value{T: n.Type(), C: []Term{IntLit(0)}, P: x.normPtr(&p)})
	default:
		fr.unsupported("IndexAddr on %v", xv.T)
	}
}

func (fr *Frame) sliceOp(n *ssa.Slice) {
	x := fr.x
	c := x.ctx
	xv := fr.val(n.X)
	var lo, hi, mx Term
	if n.Low != nil {
		lo = fr.val(n.Low).term()
	} else {
		lo = IntLit(0)
	}
	switch u := xv.T.Underlying().(type) {
	case *types.Slice:
		ref, off, ln, cp := xv.C[0], xv.C[1], xv.C[2], xv.C[3]
		if n.High != nil {
			hi = fr.val(n.High).term()
		} else {
			hi = ln
		}
		if n.Max != nil {
			mx = fr.val(n.Max).term()
			fr.safety("bounds", And(Le(IntLit(0), lo), Le(lo, hi), Le(hi, mx), Le(mx, cp)), "slice-bounds")
		} else {
			mx = cp
			fr.safety("bounds", And(Le(IntLit(0), lo), Le(lo, hi), Le(hi, cp)), "slice-bounds")
		}
		fr.set(n, &Value{T: n.Type(), C: []Term{ref, c.Name("off", Add(off, lo)), c.Name("len", Sub(hi, lo)), c.Name("cap", Sub(mx, lo))}})
	case *types.Basic: // string
		if n.High != nil {
			hi = fr.val(n.High).term()
		} else {
			hi = xv.C[2]
		}
		fr.safety("bounds", And(Le(IntLit(0), lo), Le(lo, hi), Le(hi, xv.C[2])), "string-slice-bounds")
		fr.set(n, &Value{T: n.Type(), C: []Term{xv.C[0], c.Name("off", Add(xv.C[1], lo)), c.Name("len", Sub(hi, lo))}})
	case *types.Pointer:
		at := u.Elem().Underlying().(*types.Array)
		fr.nilCheck(xv, "array")
		N := IntLit(at.Len())
		if n.High != nil {
			hi = fr.val(n.High).term()
		} else {
			hi = N
		}
		if n.Max != nil {
			mx = fr.val(n.Max).term()
		} else {
			mx = N
		}
		fr.safety("bounds", And(Le(IntLit(0), lo), Le(lo, hi), Le(hi, mx), Le(mx, N)), "slice-bounds")
		p := x.ptrOf(xv)
		if p.Local != nil && len(p.Path) == 0 && !p.Elem && fr.localArrayNeverStoredAfter(p.Local, n) {
			// a local array that is not written after this point (e.g. digest := sha256.Sum256(..); digest[:]):
			// the slice is a fresh object holding a snapshot of the array. Writes through the slice would not be
			// reflected in the array, but the array is never read or written again through its own name.
			st := fr.cur
			cur := x.Load(st, p)
			el := at.Elem()
			if lay := x.eng.layout(el); len(lay) == len(cur.C) {
				ref := x.newRef(st, "arrslice")
				for j := range lay {
					key, _ := x.eng.heapKey("M", el, j)
					x.heapSetAt(st, key, c.Name("M", Store(x.heapGet(st, key), ref, cur.C[j])), ref)
				}
				c.Note(fr.fn.Name() + ": slice of a local array modelled as a snapshot (the array is not used afterwards)")
				fr.set(n, &Value{T: n.Type(), C: []Term{ref, lo, c.Name("len", Sub(hi, lo)), c.Name("cap", Sub(mx, lo))}})
				return
			}
		}
		if p.Local != nil || p.Global != nil || p.Elem || len(p.Path) > 0 {
			// slicing an array that does not live in element memory: abstract
			c.Note(fr.fn.Name() + ": slice of embedded/local array abstracted")
			fr.set(n, fr.havocValue("slc", n.Type()))
			return
		}
		fr.set(n, &Value{T: n.Type(), C: []Term{p.Heap, lo, c.Name("len", Sub(hi, lo)), c.Name("cap", Sub(mx, lo))}})
	default:
		fr.unsupported("Slice on %v", xv.T)
	}
}

// localArrayNeverStoredAfter: the local array cell is neither stored to nor has its address taken for indexing anywhere
// in the function other than by (a) stores that dominate the slice instruction and (b) this slice instruction itself.
func (fr *Frame) localArrayNeverStoredAfter(a *ssa.Alloc, at *ssa.Slice) bool {
	refs := a.Referrers()
	if refs == nil {
		return false
	}
	for _, r := range *refs {
		switch u := r.(type) {
		case *ssa.Slice:
			if u != at {
				return false
			}
		case *ssa.Store:
			if u.Addr != ssa.Value(a) {
				return false
			}
			if u.Block() == at.Block() {
				// must come before the slice instruction in the same block
				before := false
				for _, in := range u.Block().Instrs {
					if in == ssa.Instruction(u) {
						before = true
						break
					}
					if in == ssa.Instruction(at) {
						break
					}
				}
				if !before {
					return false
				}
			} else if !u.Block().Dominates(at.Block()) {
				return false
			}
		case *ssa.DebugRef:
		default:
			return false // loads, index addresses, calls: the array is used through its own name
		}
	}
	return true
}

func (fr *Frame) unop(n *ssa.UnOp) {
	x := fr.x
	xv := fr.val(n.X)
	switch n.Op {
	case token.MUL:
		fr.nilCheck(xv, "load")
		v := x.Load(fr.cur, x.ptrOf(xv))
		v2 := &Value{T: n.Type(), C: v.C, P: v.P}
		if v2.P == nil {
			// name large loaded terms and assume representation invariants
			for j := range v2.C {
				v2.C[j] = x.ctx.Name("ld", v2.C[j])
			}
			if p := x.ptrOf(xv); p.Local == nil {
				x.ctx.Assume(Implies(fr.reach, x.eng.typeInv(v2, fr.cur.alloc)))
			}
		}
		fr.set(n, v2)
	case token.NOT:
		fr.set(n, &Value{T: n.Type(), C: []Term{Not(xv.term())}})
	case token.SUB:
		fr.set(n, fr.arith(n.Type(), Neg(xv.term())))
	case token.XOR:
		lo, hi, ok := intRange(n.Type().Underlying().(*types.Basic))
		if !ok {
			fr.unsupported("^ on %v", n.Type())
		}
		if lo.Sign() == 0 {
			fr.set(n, &Value{T: n.Type(), C: []Term{Sub(BigLit(hi), xv.term())}})
		} else {
			fr.set(n, &Value{T: n.Type(), C: []Term{Sub(Neg(xv.term()), IntLit(1))}})
		}
	case token.ARROW:
		fr.unsupported("channel receive")
	default:
		fr.unsupported("unary %v", n.Op)
	}
}

// arith wraps a mathematical result into the machine type t.
func (fr *Frame) arith(t types.Type, v Term) *Value {
	b, ok := t.Underlying().(*types.Basic)
	if !ok {
		fr.unsupported("arithmetic on %v", t)
	}
	lo, hi, ok := intRange(b)
	if !ok {
		return &Value{T: t, C: []Term{fr.x.ctx.Fresh("flt", SInt)}}
	}
	if lv, ok := litVal(v); ok && lv.Cmp(lo) >= 0 && lv.Cmp(hi) <= 0 {
		return &Value{T: t, C: []Term{v}}
	}
	m := new(big.Int).Add(new(big.Int).Sub(hi, lo), big.NewInt(1))
	var w Term
	if lo.Sign() == 0 {
		w = EMod(v, BigLit(m))
	} else if b.Kind() == types.Int || b.Kind() == types.Int64 {
		if fr.x.cur.fc != nil && fr.x.cur.fc.WrapAround {
			w = App(SInt, "wrapS", v, BigLit(lo), BigLit(m))
		} else {
			// int arithmetic is mathematical; staying in range is a safety obligation
			// ("overflow"), assumed afterwards like the other safety kinds
			fr.safety("overflow", And(Le(BigLit(lo), v), Le(v, BigLit(hi))), "int-overflow")
			return &Value{T: t, C: []Term{fr.x.ctx.NameAlways("a", v)}}
		}
	} else {
		w = App(SInt, "wrapS", v, BigLit(lo), BigLit(m))
	}
	return &Value{T: t, C: []Term{fr.x.ctx.Name("a", w)}}
}

func bitWidth(t types.Type) int {
	b, ok := t.Underlying().(*types.Basic)
	if !ok {
		return 64
	}
	switch b.Kind() {
	case types.Int8, types.Uint8:
		return 8
	case types.Int16, types.Uint16:
		return 16
	case types.Int32, types.Uint32:
		return 32
	}
	return 64
}

func isUnsigned(t types.Type) bool {
	b, ok := t.Underlying().(*types.Basic)
	return ok && b.Info()&types.IsUnsigned != 0
}

func (fr *Frame) binop(op token.Token, a, b *Value, rt types.Type, at ssa.Value) *Value {
	x := fr.x
	c := x.ctx
	mkB := func(t Term) *Value { return &Value{T: rt, C: []Term{t}} }
	// comparisons
	switch op {
	case token.EQL, token.NEQ:
		eq := fr.valuesEqual(a, b)
		if op == token.NEQ {
			eq = Not(eq)
		}
		return mkB(eq)
	}
	if isString(a.T) {
		switch op {
		case token.ADD:
			env := &SpecEnv{x: x, st: fr.cur}
			s := catSeq(env.toSeq(a), env.toSeq(b))
			arr, ln := env.materialise(s)
			return &Value{T: rt, C: []Term{arr, IntLit(0), ln}}
		case token.LSS, token.LEQ, token.GTR, token.GEQ:
			return mkB(c.Fresh("strcmp", SBool))
		}
		fr.unsupported("string op %v", op)
	}
	if isBoolT(a.T) {
		switch op {
		case token.AND, token.LAND:
			return mkB(And(a.term(), b.term()))
		case token.OR, token.LOR:
			return mkB(Or(a.term(), b.term()))
		}
	}
	if bt, ok := a.T.Underlying().(*types.Basic); ok && bt.Info()&types.IsInteger == 0 && bt.Info()&types.IsUntyped == 0 {
		// floats: opaque
		if rtb, ok := rt.Underlying().(*types.Basic); ok && rtb.Info()&types.IsBoolean != 0 {
			return mkB(c.Fresh("fcmp", SBool))
		}
		return &Value{T: rt, C: []Term{c.Fresh("fop", SInt)}}
	}
	av, bv := a.term(), b.term()
	switch op {
	case token.LSS:
		return mkB(Lt(av, bv))
	case token.LEQ:
		return mkB(Le(av, bv))
	case token.GTR:
		return mkB(Gt(av, bv))
	case token.GEQ:
		return mkB(Ge(av, bv))
	case token.ADD:
		return fr.arith(rt, Add(av, bv))
	case token.SUB:
		return fr.arith(rt, Sub(av, bv))
	case token.MUL:
		return fr.arith(rt, Mul(av, bv))
	case token.QUO:
		fr.safety("div", Neq(bv, IntLit(0)), "division-by-zero")
		if isUnsigned(rt) {
			return &Value{T: rt, C: []Term{c.Name("q", EDiv(av, bv))}}
		}
		if lb, ok := litVal(bv); ok && lb.Sign() > 0 {
			if la, ok := litVal(av); ok {
				return &Value{T: rt, C: []Term{BigLit(new(big.Int).Quo(la, lb))}}
			}
		}
		return fr.arith(rt, App(SInt, "tdiv", av, bv))
	case token.REM:
		fr.safety("div", Neq(bv, IntLit(0)), "division-by-zero")
		if isUnsigned(rt) {
			return &Value{T: rt, C: []Term{c.Name("r", EMod(av, bv))}}
		}
		return &Value{T: rt, C: []Term{c.Name("r", App(SInt, "tmod", av, bv))}}
	case token.AND:
		if k, ok := litVal(bv); ok && isUnsigned(a.T) {
			// masking an unsigned value with all the bits of its own type is the identity
			if _, hi, ok2 := intRange(a.T.Underlying().(*types.Basic)); ok2 && new(big.Int).And(k, hi).Cmp(hi) == 0 {
				return &Value{T: rt, C: []Term{av}}
			}
		}
		if k, ok := litVal(bv); ok && k.Sign() >= 0 {
			return &Value{T: rt, C: []Term{c.Name("and", andConst(fr.toUnsigned(av, a.T), k))}}
		}
		if k, ok := litVal(av); ok && k.Sign() >= 0 {
			return &Value{T: rt, C: []Term{c.Name("and", andConst(fr.toUnsigned(bv, b.T), k))}}
		}
		return fr.fromUnsigned(c.Name("and", bitop(c, "&", fr.toUnsigned(av, a.T), fr.toUnsigned(bv, b.T), bitWidth(rt))), rt)
	case token.OR:
		if k, ok := litVal(bv); ok && k.Sign() >= 0 && isUnsigned(rt) {
			// x | k = x + k - (x & k)
			return &Value{T: rt, C: []Term{c.Name("or", Sub(Add(av, bv), andConst(av, k)))}}
		}
		return fr.fromUnsigned(c.Name("or", bitop(c, "|", fr.toUnsigned(av, a.T), fr.toUnsigned(bv, b.T), bitWidth(rt))), rt)
	case token.XOR:
		if k, ok := litVal(bv); ok && k.Sign() >= 0 && isUnsigned(rt) {
			// x ^ k = x + k - 2*(x & k)
			return &Value{T: rt, C: []Term{c.Name("xor", Sub(Add(av, bv), Mul(IntLit(2), andConst(av, k))))}}
		}
		return fr.fromUnsigned(c.Name("xor", bitop(c, "^", fr.toUnsigned(av, a.T), fr.toUnsigned(bv, b.T), bitWidth(rt))), rt)
	case token.AND_NOT:
		if k, ok := litVal(bv); ok && k.Sign() >= 0 {
			w := uint(bitWidth(rt))
			mask := new(big.Int).Sub(pow2(w), big.NewInt(1))
			nk := new(big.Int).AndNot(mask, k)
			return fr.fromUnsigned(c.Name("andnot", andConst(fr.toUnsigned(av, a.T), nk)), rt)
		}
		return &Value{T: rt, C: []Term{fr.havocValue("andnot", rt).C[0]}}
	case token.SHL:
		if !isUnsigned(b.T) {
			fr.safety("bounds", Ge(bv, IntLit(0)), "negative-shift")
		}
		w := uint(bitWidth(rt))
		if k, ok := litVal(bv); ok {
			if k.Cmp(big.NewInt(int64(w))) >= 0 {
				return &Value{T: rt, C: []Term{IntLit(0)}}
			}
			return fr.arith(rt, Mul(av, BigLit(pow2(uint(k.Int64())))))
		}
		// variable shift: 2^k by ite chain for k < w
		p := IntLit(0)
		for k := int(w) - 1; k >= 0; k-- {
			p = Ite(Eq(bv, IntLit(int64(k))), BigLit(pow2(uint(k))), p)
		}
		return fr.arith(rt, Mul(av, c.Name("pw", p)))
	case token.SHR:
		if !isUnsigned(b.T) {
			fr.safety("bounds", Ge(bv, IntLit(0)), "negative-shift")
		}
		w := uint(bitWidth(rt))
		if k, ok := litVal(bv); ok {
			if k.Cmp(big.NewInt(int64(w))) >= 0 {
				if isUnsigned(rt) {
					return &Value{T: rt, C: []Term{IntLit(0)}}
				}
				return &Value{T: rt, C: []Term{Ite(Lt(av, IntLit(0)), IntLit(-1), IntLit(0))}}
			}
			return &Value{T: rt, C: []Term{c.Name("shr", EDiv(av, BigLit(pow2(uint(k.Int64())))))}} // floor division = arithmetic shift
		}
		p := BigLit(pow2(w))
		for k := int(w) - 1; k >= 0; k-- {
			p = Ite(Eq(bv, IntLit(int64(k))), BigLit(pow2(uint(k))), p)
		}
		return &Value{T: rt, C: []Term{c.Name("shr", EDiv(av, c.Name("pw", p)))}}
	}
	fr.unsupported("binary %v on %v", op, a.T)
	return nil
}

// toUnsigned gives the two's complement bit pattern as a non-negative integer.
func (fr *Frame) toUnsigned(v Term, t types.Type) Term {
	if isUnsigned(t) {
		return v
	}
	if lv, ok := litVal(v); ok && lv.Sign() >= 0 {
		return v
	}
	w := uint(bitWidth(t))
	return Ite(Lt(v, IntLit(0)), Add(v, BigLit(pow2(w))), v)
}

func (fr *Frame) fromUnsigned(v Term, t types.Type) *Value {
	if isUnsigned(t) {
		return &Value{T: t, C: []Term{v}}
	}
	w := uint(bitWidth(t))
	return &Value{T: t, C: []Term{fr.x.ctx.Name("s", Ite(Ge(v, BigLit(pow2(w-1))), Sub(v, BigLit(pow2(w))), v))}}
}

func (fr *Frame) valuesEqual(a, b *Value) Term {
	x := fr.x
	if isString(a.T) || isString(b.T) {
		return fr.stringEq(a, b)
	}
	if isIface(a.T) || isIface(b.T) {
		// interface vs interface: tag and payload
		if len(a.C) == 2 && len(b.C) == 2 {
			return And(Eq(a.C[0], b.C[0]), Eq(a.C[1], b.C[1]))
		}
		// interface vs concrete (after MakeInterface both are interfaces in SSA)
	}
	if a.P != nil || b.P != nil {
		if samePtr(a.P, b.P) {
			return TTrue
		}
		if (a.P != nil && a.P.Local != nil) || (b.P != nil && b.P.Local != nil) {
			// pointer to a local is never nil and differs from any other pointer
			return TFalse
		}
		return x.ctx.Fresh("ptreq", SBool)
	}
	if len(a.C) != len(b.C) {
		fr.unsupported("== on different shapes %v %v", a.T, b.T)
	}
	if isSlice(a.T) {
		return Eq(a.C[0], b.C[0]) // only comparison with nil is legal
	}
	var cs []Term
	l := x.eng.layout(a.T)
	for i := range a.C {
		if i < len(l) && l[i].Kind == "str.arr" {
			// string field inside a struct: content equality
			sa := &Value{T: types.Typ[types.String], C: a.C[i : i+3]}
			sb := &Value{T: types.Typ[types.String], C: b.C[i : i+3]}
			cs = append(cs, fr.stringEq(sa, sb))
			continue
		}
		if i < len(l) && (l[i].Kind == "str.off" || l[i].Kind == "str.len") {
			continue
		}
		cs = append(cs, Eq(a.C[i], b.C[i]))
	}
	return And(cs...)
}

func (fr *Frame) stringEq(a, b *Value) Term {
	// constant on one side: expand
	expand := func(s, k *Value) (Term, bool) {
		n, ok := litVal(k.C[2])
		if !ok || n.Int64() > 64 {
			return Term{}, false
		}
		ko, ok2 := litVal(k.C[1])
		if !ok2 {
			return Term{}, false
		}
		cs := []Term{Eq(s.C[2], k.C[2])}
		for i := int64(0); i < n.Int64(); i++ {
			cs = append(cs, Eq(Select(s.C[0], Add(s.C[1], IntLit(i))), Select(k.C[0], IntLit(ko.Int64()+i))))
		}
		return And(cs...), true
	}
	if t, ok := expand(a, b); ok {
		return fr.x.ctx.Name("seq", t)
	}
	if t, ok := expand(b, a); ok {
		return fr.x.ctx.Name("seq", t)
	}
	env := &SpecEnv{x: fr.x, st: fr.cur}
	return fr.x.ctx.Name("seq", env.seqEq(env.toSeq(a), env.toSeq(b)))
}

func (fr *Frame) phi(n *ssa.Phi) {
	b := fr.curBlock
	var res *Value
	// walk preds in reverse to build ite chain
	type alt struct {
		cond Term
		v    *Value
	}
	var alts []alt
	for i, p := range b.Preds {
		var conds []Term
		for _, e := range fr.incoming {
			if e.from == p {
				conds = append(conds, e.cond)
			}
		}
		if len(conds) == 0 {
			continue
		}
		alts = append(alts, alt{Or(conds...), fr.val(n.Edges[i])})
	}
	if len(alts) == 0 {
		fr.set(n, fr.havocValue("phi", n.Type()))
		return
	}
	res = alts[len(alts)-1].v
	for i := len(alts) - 2; i >= 0; i-- {
		a := alts[i]
		if len(a.v.C) != len(res.C) {
			fr.unsupported("phi shape mismatch")
		}
		nv := &Value{T: n.Type(), C: make([]Term, len(res.C)), P: res.P}
		for j := range res.C {
			nv.C[j] = Ite(a.cond, a.v.C[j], res.C[j])
		}
		res = nv
	}
	out := &Value{T: n.Type(), C: make([]Term, len(res.C)), P: res.P}
	for j := range res.C {
		out.C[j] = fr.x.ctx.Name("phi", res.C[j])
	}
	fr.set(n, out)
}

func (fr *Frame) makeIface(it types.Type, v *Value) *Value {
	x := fr.x
	e := x.eng
	if isIface(v.T) {
		return &Value{T: it, C: v.C}
	}
	tag := IntLit(int64(e.typeID(v.T)))
	if _, ok := v.T.Underlying().(*types.Pointer); ok {
		if v.P != nil {
			return &Value{T: it, C: []Term{tag, x.ctx.Fresh("boxptr", SInt)}}
		}
		return &Value{T: it, C: []Term{tag, v.C[0]}}
	}
	if b, ok := v.T.Underlying().(*types.Basic); ok && b.Kind() == types.UntypedNil {
		return &Value{T: it, C: []Term{IntLit(0), IntLit(0)}}
	}
	// box the value
	ref := x.newRef(fr.cur, "box")
	x.Store(fr.cur, &Ptr{Heap: ref, RootT: v.T}, &Value{T: v.T, C: v.C})
	return &Value{T: it, C: []Term{tag, ref}}
}

func (fr *Frame) typeAssert(n *ssa.TypeAssert) {
	x := fr.x
	e := x.eng
	xv := fr.val(n.X)
	at := n.AssertedType
	var ok Term
	var res *Value
	if isIface(at) {
		// interface-to-interface: succeeds iff non-nil and dynamic type implements it
		imp := x.implementsTerm(xv.C[0], at)
		ok = And(Neq(xv.C[0], IntLit(0)), imp)
		// when every concrete type implementing is unknown we keep it nondeterministic,
		// except for the empty interface / identical interface
		if types.Identical(at.Underlying(), xv.T.Underlying()) || at.Underlying().(*types.Interface).Empty() {
			ok = Neq(xv.C[0], IntLit(0))
		}
		res = &Value{T: at, C: xv.C}
	} else {
		ok = Eq(xv.C[0], IntLit(int64(e.typeID(at))))
		if _, isP := at.Underlying().(*types.Pointer); isP {
			res = &Value{T: at, C: []Term{xv.C[1]}}
		} else {
			res = x.Load(fr.cur, &Ptr{Heap: xv.C[1], RootT: at})
			res.T = at
		}
	}
	if n.CommaOk {
		// on failure the value is the zero value
		z := e.zeroValue(at)
		out := &Value{T: n.Type(), C: nil}
		for j := range res.C {
			out.C = append(out.C, x.ctx.Name("ta", Ite(ok, res.C[j], z.C[j])))
		}
		out.C = append(out.C, x.ctx.Name("taok", ok))
		fr.set(n, out)
		return
	}
	fr.safety("assert", ok, "type-assertion")
	fr.set(n, res)
}

func (fr *Frame) convert(v *Value, to types.Type) *Value {
	x := fr.x
	c := x.ctx
	from := v.T
	fb, fok := from.Underlying().(*types.Basic)
	tb, tok := to.Underlying().(*types.Basic)
	switch {
	case fok && tok && fb.Info()&types.IsInteger != 0 && tb.Info()&types.IsInteger != 0:
		return fr.arith(to, v.term())
	case fok && tok && fb.Info()&types.IsString != 0 && tb.Info()&types.IsString != 0:
		return &Value{T: to, C: v.C}
	case fok && tok && fb.Info()&types.IsInteger != 0 && tb.Info()&types.IsString != 0:
		// string(rune): one byte when < 0x80
		r := v.term()
		ln := c.Fresh("runelen", SInt)
		c.Assume(And(Le(IntLit(1), ln), Le(ln, IntLit(4)), Implies(And(Le(IntLit(0), r), Lt(r, IntLit(128))), Eq(ln, IntLit(1)))))
		arr := c.Fresh("runestr", SArr)
		c.Assume(Implies(And(Le(IntLit(0), r), Lt(r, IntLit(128))), Eq(Select(arr, IntLit(0)), r)))
		return &Value{T: to, C: []Term{arr, IntLit(0), ln}}
	case tok && tb.Info()&types.IsString != 0 && isSlice(from):
		// string(bytes): copy
		env := &SpecEnv{x: x, st: fr.cur}
		el := from.Underlying().(*types.Slice).Elem()
		if eb, ok := el.Underlying().(*types.Basic); ok && eb.Kind() == types.Uint8 {
			arr, ln := env.materialise(env.toSeq(v))
			return &Value{T: to, C: []Term{arr, IntLit(0), ln}}
		}
		return fr.havocValue("str", to)
	case fok && fb.Info()&types.IsString != 0 && isSlice(to):
		el := to.Underlying().(*types.Slice).Elem()
		if eb, ok := el.Underlying().(*types.Basic); ok && eb.Kind() == types.Uint8 {
			// []byte(s): fresh array with the same content
			env := &SpecEnv{x: x, st: fr.cur}
			arr, ln := env.materialise(env.toSeq(v))
			ref := x.newRef(fr.cur, "b2s")
			key, _ := x.eng.heapKey("M", el, 0)
			x.heapSetAt(fr.cur, key, c.Name("M", Store(x.heapGet(fr.cur, key), ref, arr)), ref)
			return &Value{T: to, C: []Term{ref, IntLit(0), ln, ln}}
		}
		return fr.havocValue("runes", to)
	case fok && tok:
		// float <-> int etc.
		return fr.havocValue("conv", to)
	}
	if len(x.eng.layout(from)) == len(x.eng.layout(to)) {
		return &Value{T: to, C: v.C, P: v.P}
	}
	return fr.havocValue("conv", to)
}

func (fr *Frame) next(n *ssa.Next) {
	x := fr.x
	c := x.ctx
	rg := n.Iter.(*ssa.Range)
	xv := fr.val(rg.X)
	tt := n.Type().(*types.Tuple)
	if n.IsString {
		cell := fr.cur.locals[rg]
		pos := cell.C[0]
		ok := Lt(pos, xv.C[2])
		b := c.Name("rb", Select(xv.C[0], Add(xv.C[1], pos)))
		r := c.Fresh("rune", SInt)
		adv := c.Fresh("adv", SInt)
		c.Assume(Implies(ok, And(Le(IntLit(0), b), Le(b, IntLit(255)))))
		c.Assume(Implies(And(ok, Lt(b, IntLit(128))), And(Eq(r, b), Eq(adv, IntLit(1)))))
		c.Assume(And(Le(IntLit(1), adv), Le(adv, IntLit(4)), Le(IntLit(0), r), Le(r, IntLit(0x10FFFF))))
		c.Assume(Implies(ok, Le(Add(pos, adv), xv.C[2])))
		x.setLocal(fr.cur, rg, &Value{T: types.Typ[types.Int], C: []Term{c.Name("pos", Ite(ok, Add(pos, adv), pos))}})
		fr.set(n, &Value{T: tt, C: []Term{ok, pos, r}})
		return
	}
	if mt, ok := x.intKeyedMap(xv.T); ok {
		// map iteration: some key of the domain that was not handed out yet; when there is none, every key was
		st := fr.cur
		dom, vals := x.mapKeys(mt)
		seen := st.locals[rg].C[0]
		drow := Select(x.heapGet(st, dom), xv.C[0])
		k := c.Fresh("mapkey", SInt)
		okv := c.Fresh("mapnext", SBool)
		if b, isB := mt.Key().Underlying().(*types.Basic); isB {
			if lo, hi, okr := intRange(b); okr {
				c.Assume(And(Le(BigLit(lo), k), Le(k, BigLit(hi))))
			}
		}
		c.Assume(Implies(okv, And(Neq(xv.C[0], IntLit(0)), Select(drow, k), Not(Select(seen, k)))))
		j := Term{S: "k$n", Sort: SInt}
		c.Assume(Implies(Not(okv), Forall([]Term{j}, Implies(And(Neq(xv.C[0], IntLit(0)), Select(drow, j)), Select(seen, j)), Select(drow, j))))
		x.setLocal(st, rg, &Value{T: nil, SK: "mapseen", C: []Term{c.Name("seen", Ite(okv, Store(seen, k, TTrue), seen))}})
		out := &Value{T: tt, C: []Term{okv}}
		if b, isB := tt.At(1).Type().(*types.Basic); isB && b.Kind() == types.Invalid {
			out.C = append(out.C, IntLit(0))
		} else {
			out.C = append(out.C, k)
		}
		if b, isB := tt.At(2).Type().(*types.Basic); isB && b.Kind() == types.Invalid {
			out.C = append(out.C, IntLit(0))
		} else {
			for _, vk := range vals {
				out.C = append(out.C, c.Name("mapval", Select(Select(x.heapGet(st, vk), xv.C[0]), k)))
			}
		}
		if len(out.C) == len(x.eng.layout(tt)) {
			fr.set(n, out)
			return
		}
	}
	// map iteration: arbitrary
	out := &Value{T: tt, C: nil}
	okv := c.Fresh("mapnext", SBool)
	out.C = append(out.C, okv)
	for i := 1; i < tt.Len(); i++ {
		if b, ok := tt.At(i).Type().(*types.Basic); ok && b.Kind() == types.Invalid {
			out.C = append(out.C, IntLit(0))
			continue
		}
		v := fr.havocValue("mapit", tt.At(i).Type())
		out.C = append(out.C, v.C...)
	}
	// fix layout: tuple layout must match
	if len(out.C) != len(x.eng.layout(tt)) {
		out = x.eng.freshValue(c, "mapnext", tt)
	}
	fr.set(n, out)
}

func (fr *Frame) mapLookup(n *ssa.Lookup, mv, key *Value) *Value {
	x := fr.x
	return x.mapGet(fr, mv, key, n.Type(), n.CommaOk)
}

func (fr *Frame) runDefers() {
	// execute recorded defers in LIFO order when their block dominates the current one
	for i := len(fr.defers) - 1; i >= 0; i-- {
		d := fr.defers[i]
		if !d.Block().Dominates(fr.curBlock) {
			fr.x.ctx.Note(fr.fn.Name() + ": conditional defer ignored at rundefers")
			continue
		}
		fr.call(d.Common(), nil, nil)
	}
}

// allocBound: allocations in a function with an allocbound clause stay within it.
func (fr *Frame) allocBound(n Term) {
	x := fr.x
	top := fr
	for top.parent != nil {
		top = top.parent
	}
	if x.cur.fc == nil || x.cur.fc.AllocBound == nil {
		return
	}
	cl := x.cur.fc.AllocBound
	env := &SpecEnv{x: x, vars: top.argVars, st: fr.cur, old: top.entrySt, fn: top.fn}
	b, err := env.EvalInt(cl.E)
	if err != nil {
		fr.contractError(*cl, err)
		return
	}
	fr.obligation("alloc", "make-within-allocbound", fr.reach, Le(n, b), "allocation bounded by "+cl.Text)
}

// guardCheck: lock discipline of a declared field (see GuardDecl). The obligation is stated at the address computation:
// a guarded field needs the mutex of the same object held by this call for every access; an immutable field may be read
// freely and written only on an object allocated during this call. Objects that live in a local variable (never
// shared) carry no obligation.
func (fr *Frame) guardCheck(n *ssa.FieldAddr, xv *Value, p *Ptr, np *Ptr) {
	x := fr.x
	pt, ok := n.X.Type().Underlying().(*types.Pointer)
	if !ok {
		return
	}
	nt, ok := pt.Elem().(*types.Named)
	if !ok || nt.Obj().Pkg() == nil {
		return
	}
	key := nt.Obj().Pkg().Path() + "." + nt.Obj().Name()
	gm, em := x.eng.guards[key], x.eng.exclusive[key]
	if gm == nil && em == nil {
		return
	}
	stt, _ := nt.Underlying().(*types.Struct)
	if stt == nil || np.Local != nil {
		return
	}
	fname := stt.Field(n.Field).Name()
	write := guardedWrite(n)
	freshObj := Ge(xv.C[0], x.entryAlloc)
	// flags of the mutex field mu of the same object: exclusive hold, and (RWMutex) shared hold
	holds := func(mu string) (excl Term, shared Term, ok bool) {
		mi := -1
		for i := 0; i < stt.NumFields(); i++ {
			if stt.Field(i).Name() == mu {
				mi = i
			}
		}
		if mi < 0 {
			fr.x.cur.errors = append(fr.x.cur.errors, fmt.Sprintf("guarded %s.%s by %s: no such mutex field", nt.Obj().Name(), fname, mu))
			return TFalse, TFalse, false
		}
		base := *x.ptrOf(xv)
		base.Path = append(append([]PathEl(nil), base.Path...), PathEl{Field: mi})
		h := x.Load(fr.cur, x.normPtr(&base))
		if len(h.C) < 1 {
			fr.x.cur.errors = append(fr.x.cur.errors, fmt.Sprintf("guarded %s.%s by %s: not a sync.Mutex / sync.RWMutex", nt.Obj().Name(), fname, mu))
			return TFalse, TFalse, false
		}
		excl, shared = h.C[0], TFalse
		if len(h.C) > 1 {
			shared = h.C[1]
		}
		return excl, shared, true
	}
	if gd := gm[fname]; gd != nil {
		switch {
		case gd.Mutex == "" && write:
			fr.obligation("guarded", "immutable-field-"+fname+"-written-only-on-an-object-allocated-in-this-call", fr.reach, freshObj,
				nt.Obj().Name()+"."+fname+" is immutable after construction")
		case gd.Mutex != "":
			if excl, shared, ok := holds(gd.Mutex); ok {
				kind, cond := "read", Or(excl, shared, freshObj)
				if write {
					kind, cond = "write", Or(excl, freshObj)
				}
				fr.obligation("guarded", fmt.Sprintf("%s-of-%s-with-%s-held", kind, fname, gd.Mutex), fr.reach, cond,
					fmt.Sprintf("%s.%s is guarded by %s: held(x.%s) || allocated in this call (a shared hold of a RWMutex suffices for reads)", nt.Obj().Name(), fname, gd.Mutex, gd.Mutex))
			}
		}
	}
	if gd := em[fname]; gd != nil {
		if excl, _, ok := holds(gd.Mutex); ok {
			fr.obligation("guarded", fmt.Sprintf("use-of-%s-with-%s-held-exclusively", fname, gd.Mutex), fr.reach, Or(excl, freshObj),
				fmt.Sprintf("%s.%s is used under the exclusive hold of %s (whole-call serialisation): held(x.%s) || allocated in this call", nt.Obj().Name(), fname, gd.Mutex, gd.Mutex))
		}
	}
}

// guardedWrite: is the address used for anything but loads?
func guardedWrite(n *ssa.FieldAddr) bool {
	refs := n.Referrers()
	if refs == nil {
		return true
	}
	for _, r := range *refs {
		switch u := r.(type) {
		case *ssa.UnOp:
			if u.Op == token.MUL {
				continue
			}
		case *ssa.DebugRef:
			continue
		}
		return true
	}
	return false
}

// implementsCheck: a function that becomes a value of a named function type with a (checked) contract must have been
// verified against that contract ("implements T" in its own contract).
func (fr *Frame) implementsCheck(n *ssa.ChangeType, xv *Value) {
	x := fr.x
	nt, ok := n.Type().(*types.Named)
	if !ok || nt.Obj().Pkg() == nil {
		return
	}
	if _, isSig := nt.Underlying().(*types.Signature); !isSig {
		return
	}
	tc, ok := x.eng.contracts[nt.Obj().Pkg().Path()+"::("+nt.Obj().Name()+").call"]
	if !ok || tc.Trusted {
		return
	}
	what := "unknown function value"
	if len(xv.C) == 1 {
		if id, ok := litVal(xv.C[0]); ok {
			if fn := x.eng.funcByID[int(id.Int64())]; fn != nil {
				what = fn.Name()
				if fn.Pkg != nil {
					if fc := x.eng.contractFor(fn); fc != nil && fc.Implements == nt.Obj().Name() && fn.Pkg.Pkg == nt.Obj().Pkg() {
						x.cur.trivial++
						return
					}
				}
			}
		}
	}
	fr.obligation("implements", what+"-as-"+nt.Obj().Name(), fr.reach, TFalse,
		"a function used as "+nt.Obj().Name()+" must be verified against the contract of that type (implements "+nt.Obj().Name()+")")
}

// proxyFor: a pointer to a struct embedded in a heap object is about to be stored in memory. Pointers in memory are
// object references, so the embedded struct gets a stand-in object of its own type that is kept in step with the
// embedded fields at every call made from the frames of this verification (copied in before the call, copied back after
// it): code that only hands the stored pointer to callees (the pattern of the protocol constructors) sees and updates
// the embedded struct. Direct accesses through the stored pointer between two calls would not be reflected.
func (fr *Frame) proxyFor(v *Value) *Value {
	x := fr.x
	p := v.P
	if p == nil || p.Local != nil || p.Global != nil || len(p.Path) == 0 || p.Heap.S == "" {
		return nil
	}
	pt, ok := v.T.Underlying().(*types.Pointer)
	if !ok {
		return nil
	}
	if _, isStruct := pt.Elem().Underlying().(*types.Struct); !isStruct {
		return nil
	}
	for _, el := range p.Path {
		if el.Field < 0 {
			return nil
		}
	}
	for _, pr := range x.proxies {
		if pr.key == ptrKey(p) {
			return &Value{T: v.T, C: []Term{pr.ref}}
		}
	}
	ref := x.newRef(fr.cur, "embedded")
	pr := proxyRec{ref: ref, T: v.T, base: p, key: ptrKey(p)}
	x.proxies = append(x.proxies, pr)
	x.ctx.Note(fmt.Sprintf("%s: pointer to an embedded struct stored in memory: modelled by a stand-in object synchronised at calls", fr.fn.Name()))
	x.syncProxy(fr.cur, pr, true)
	return &Value{T: v.T, C: []Term{ref}}
}

type proxyRec struct {
	ref  Term
	T    types.Type
	base *Ptr
	key  string
}

func ptrKey(p *Ptr) string {
	s := p.Heap.S
	for _, el := range p.Path {
		s += fmt.Sprintf("/%d", el.Field)
	}
	return s
}

func (x *Exec) syncProxy(st *State, pr proxyRec, toProxy bool) {
	pp := x.ptrOf(&Value{T: pr.T, C: []Term{pr.ref}})
	if toProxy {
		x.Store(st, pp, x.Load(st, pr.base))
	} else {
		x.Store(st, pr.base, x.Load(st, pp))
	}
}

// panicEdge: the function has a deferred function literal that calls recover(), and the call about to be executed may
// panic. Then the deferred calls registered so far run and the function returns through its recover block (go/ssa
// Function.Recover: it returns the named results) - a return like any other, which must meet the postconditions (a lock
// taken before the call must have been released by a deferred Unlock). The state at the panic is the state before the
// call with the whole heap havocked (the callee may have done part of its work; mutex flags kept: callees are
// lock-neutral on this path too). Only calls in the function's own frame are considered (a panic inside an inlined
// callee is a panic of the call that inlined it); panics of non-call instructions are the safety obligations.
func (fr *Frame) panicEdge(n *ssa.Call) {
	x := fr.x
	if fr.parent != nil || fr.fn.Recover == nil || len(fr.dryStack) > 0 || fr.inPanicEdge {
		return
	}
	if _, isBuiltin := n.Common().Value.(*ssa.Builtin); isBuiltin {
		return
	}
	if callee := n.Common().StaticCallee(); callee != nil {
		switch callee.RelString(nil) {
		case "(*sync.Mutex).Lock", "(*sync.Mutex).Unlock", "(*sync.RWMutex).Lock", "(*sync.RWMutex).Unlock", "(*sync.RWMutex).RLock", "(*sync.RWMutex).RUnlock":
			return
		}
	}
	recovers := false
	for _, d := range fr.defers {
		if d.Block().Dominates(fr.curBlock) && deferRecovers(d) {
			recovers = true
		}
	}
	if !recovers {
		return
	}
	c := x.ctx
	savedCur, savedReach, savedBlock, savedPos, savedDead := fr.cur, fr.reach, fr.curBlock, fr.curInstrPos, fr.dead
	flag := c.Fresh("panics", SBool)
	st := fr.cur.Clone()
	na := c.Fresh("alloc", SInt)
	c.Assume(Le(st.alloc, na))
	x.setAlloc(st, na)
	x.havocAll(st)
	fr.cur = st
	fr.reach = c.Name(fmt.Sprintf("R_%s_panic_L%d", fr.fn.Name(), x.eng.prog.Fset.Position(n.Pos()).Line), And(savedReach, flag))
	fr.inPanicEdge = true
	if !fr.panicNoted {
		fr.panicNoted = true
		c.Note(fr.fn.Name() + ": recovered-panic path modelled for each call (deferred calls run, return through the recover block)")
	}
	fr.runDefers()
	fr.curBlock = fr.fn.Recover
	for _, in := range fr.fn.Recover.Instrs {
		if fr.dead {
			break
		}
		fr.execInstr(in)
	}
	fr.inPanicEdge = false
	fr.cur, fr.reach, fr.curBlock, fr.curInstrPos, fr.dead = savedCur, savedReach, savedBlock, savedPos, savedDead
}

// deferRecovers: the deferred call is a function literal (or function) whose body calls recover().
func deferRecovers(d *ssa.Defer) bool {
	var fn *ssa.Function
	switch v := d.Common().Value.(type) {
	case *ssa.MakeClosure:
		fn, _ = v.Fn.(*ssa.Function)
	case *ssa.Function:
		fn = v
	}
	if fn == nil {
		return false
	}
	for _, b := range fn.Blocks {
		for _, in := range b.Instrs {
			if c, ok := in.(*ssa.Call); ok {
				if bi, ok := c.Common().Value.(*ssa.Builtin); ok && bi.Name() == "recover" {
					return true
				}
			}
		}
	}
	return false
}
