package main

// SMT term layer: terms are rendered strings with a sort tag. Sharing is kept
// by naming intermediate results as declared constants (passive form), so the
// rendered size stays linear in the size of the program text.

import (
	"fmt"
	"math/big"
	"sort"
	"strings"
)

type Sort string

const (
	SInt  Sort = "Int"
	SBool Sort = "Bool"
	SArr  Sort = "(Array Int Int)"
)

func ArrOf(s Sort) Sort { return Sort("(Array Int " + string(s) + ")") }

// ElemSort returns the element sort of an array sort.
func ElemSort(s Sort) Sort {
	str := string(s)
	if !strings.HasPrefix(str, "(Array Int ") {
		panic("ElemSort of non-array " + str)
	}
	return Sort(str[len("(Array Int ") : len(str)-1])
}

type Term struct {
	S    string
	Sort Sort
	lin  *linForm // canonical linear form of an Int term (nil: the term is an atom)
}

// linForm: k + sum coeff[a]*a over atom strings a. Add/Sub/Neg/Mul-by-literal keep terms in
// this canonical shape, so arithmetically equal index and length expressions that are built
// in different orders (program vs specification) render to the same string.
type linForm struct {
	k     *big.Int
	coeff map[string]*big.Int
}

// Sealed drops the linear form: the term is treated as an atom by Add/Sub (array indices keep
// the shape base+atom that quantifier triggers match).
func (t Term) Sealed() Term { return Term{S: t.S, Sort: t.Sort} }

// sameTerm compares modulo linear arithmetic.
func sameTerm(a, b Term) bool {
	if a.S == b.S {
		return true
	}
	if a.Sort != SInt || b.Sort != SInt {
		return false
	}
	return linTerm(linOf(a)).S == linTerm(linOf(b)).S
}

func linOf(t Term) *linForm {
	if t.lin != nil {
		return t.lin
	}
	if v, ok := litVal(t); ok {
		return &linForm{k: v, coeff: map[string]*big.Int{}}
	}
	return &linForm{k: big.NewInt(0), coeff: map[string]*big.Int{t.S: big.NewInt(1)}}
}

func linCombine(a *linForm, b *linForm, sb int64) *linForm {
	out := &linForm{k: new(big.Int).Add(a.k, new(big.Int).Mul(b.k, big.NewInt(sb))), coeff: map[string]*big.Int{}}
	for k, v := range a.coeff {
		out.coeff[k] = new(big.Int).Set(v)
	}
	for k, v := range b.coeff {
		d := new(big.Int).Mul(v, big.NewInt(sb))
		if c, ok := out.coeff[k]; ok {
			c.Add(c, d)
			if c.Sign() == 0 {
				delete(out.coeff, k)
			}
		} else if d.Sign() != 0 {
			out.coeff[k] = d
		}
	}
	return out
}

func linScale(a *linForm, m *big.Int) *linForm {
	out := &linForm{k: new(big.Int).Mul(a.k, m), coeff: map[string]*big.Int{}}
	if m.Sign() == 0 {
		return out
	}
	for k, v := range a.coeff {
		out.coeff[k] = new(big.Int).Mul(v, m)
	}
	return out
}

func linTerm(l *linForm) Term {
	if len(l.coeff) == 0 {
		return BigLit(l.k)
	}
	keys := make([]string, 0, len(l.coeff))
	for k := range l.coeff {
		keys = append(keys, k)
	}
	sort.Strings(keys)
	var parts []string
	for _, k := range keys {
		c := l.coeff[k]
		switch {
		case c.Cmp(big.NewInt(1)) == 0:
			parts = append(parts, k)
		default:
			parts = append(parts, "(* "+BigLit(c).S+" "+k+")")
		}
	}
	if l.k.Sign() != 0 {
		parts = append(parts, BigLit(l.k).S)
	}
	if len(parts) == 1 {
		if l.k.Sign() == 0 && l.coeff[keys[0]].Cmp(big.NewInt(1)) == 0 {
			return Term{S: parts[0], Sort: SInt} // a bare atom
		}
		return Term{S: parts[0], Sort: SInt, lin: l}
	}
	return Term{S: "(+ " + strings.Join(parts, " ") + ")", Sort: SInt, lin: l}
}

func (t Term) String() string { return t.S }
func (t Term) IsZero() bool   { return t.S == "" }

var (
	TTrue  = Term{S: "true", Sort: SBool}
	TFalse = Term{S: "false", Sort: SBool}
)

func IntLit(n int64) Term {
	if n < 0 {
		return Term{S: fmt.Sprintf("(- %d)", -n), Sort: SInt}
	}
	return Term{S: fmt.Sprintf("%d", n), Sort: SInt}
}

func BigLit(n *big.Int) Term {
	if n.Sign() < 0 {
		return Term{S: "(- " + new(big.Int).Neg(n).String() + ")", Sort: SInt}
	}
	return Term{S: n.String(), Sort: SInt}
}

func BoolLit(b bool) Term {
	if b {
		return TTrue
	}
	return TFalse
}

// litVal returns the integer value of a literal term.
func litVal(t Term) (*big.Int, bool) {
	if t.Sort != SInt {
		return nil, false
	}
	if t.lin != nil && len(t.lin.coeff) == 0 {
		return t.lin.k, true
	}
	s := t.S
	neg := false
	if strings.HasPrefix(s, "(- ") && strings.HasSuffix(s, ")") {
		neg = true
		s = s[3 : len(s)-1]
	}
	if s == "" || s[0] < '0' || s[0] > '9' {
		return nil, false
	}
	for _, c := range s {
		if c < '0' || c > '9' {
			return nil, false
		}
	}
	v, ok := new(big.Int).SetString(s, 10)
	if !ok {
		return nil, false
	}
	if neg {
		v.Neg(v)
	}
	return v, true
}

func app(sort Sort, op string, args ...Term) Term {
	var b strings.Builder
	b.WriteByte('(')
	b.WriteString(op)
	for _, a := range args {
		b.WriteByte(' ')
		b.WriteString(a.S)
	}
	b.WriteByte(')')
	return Term{S: b.String(), Sort: sort}
}

func Not(a Term) Term {
	switch a.S {
	case "true":
		return TFalse
	case "false":
		return TTrue
	}
	if strings.HasPrefix(a.S, "(not ") {
		return Term{S: a.S[5 : len(a.S)-1], Sort: SBool}
	}
	return app(SBool, "not", a)
}

func And(as ...Term) Term {
	var out []Term
	for _, a := range as {
		if a.S == "true" {
			continue
		}
		if a.S == "false" {
			return TFalse
		}
		out = append(out, a)
	}
	switch len(out) {
	case 0:
		return TTrue
	case 1:
		return out[0]
	}
	return app(SBool, "and", out...)
}

func Or(as ...Term) Term {
	var out []Term
	for _, a := range as {
		if a.S == "false" {
			continue
		}
		if a.S == "true" {
			return TTrue
		}
		out = append(out, a)
	}
	switch len(out) {
	case 0:
		return TFalse
	case 1:
		return out[0]
	}
	return app(SBool, "or", out...)
}

func Implies(a, b Term) Term {
	if a.S == "true" {
		return b
	}
	if a.S == "false" || b.S == "true" {
		return TTrue
	}
	if b.S == "false" {
		return Not(a)
	}
	return app(SBool, "=>", a, b)
}

func Iff(a, b Term) Term {
	if a.S == b.S {
		return TTrue
	}
	if a.S == "true" {
		return b
	}
	if b.S == "true" {
		return a
	}
	if a.S == "false" {
		return Not(b)
	}
	if b.S == "false" {
		return Not(a)
	}
	return app(SBool, "=", a, b)
}

func Ite(c, a, b Term) Term {
	if c.S == "true" {
		return a
	}
	if c.S == "false" {
		return b
	}
	if a.S == b.S {
		return a
	}
	if a.Sort == SBool {
		if a.S == "true" && b.S == "false" {
			return c
		}
		if a.S == "false" && b.S == "true" {
			return Not(c)
		}
	}
	return app(a.Sort, "ite", c, a, b)
}

func Eq(a, b Term) Term {
	if a.S == b.S {
		return TTrue
	}
	if a.Sort == SBool {
		return Iff(a, b)
	}
	if av, ok := litVal(a); ok {
		if bv, ok := litVal(b); ok {
			return BoolLit(av.Cmp(bv) == 0)
		}
	}
	return app(SBool, "=", a, b)
}

func Neq(a, b Term) Term { return Not(Eq(a, b)) }

func cmp(op string, a, b Term, f func(int) bool) Term {
	if av, ok := litVal(a); ok {
		if bv, ok := litVal(b); ok {
			return BoolLit(f(av.Cmp(bv)))
		}
	}
	return app(SBool, op, a, b)
}

func Le(a, b Term) Term { return cmp("<=", a, b, func(c int) bool { return c <= 0 }) }
func Lt(a, b Term) Term { return cmp("<", a, b, func(c int) bool { return c < 0 }) }
func Ge(a, b Term) Term { return Le(b, a) }
func Gt(a, b Term) Term { return Lt(b, a) }

func Add(a, b Term) Term { return linTerm(linCombine(linOf(a), linOf(b), 1)) }

func Sub(a, b Term) Term { return linTerm(linCombine(linOf(a), linOf(b), -1)) }

func Neg(a Term) Term { return linTerm(linScale(linOf(a), big.NewInt(-1))) }

func Mul(a, b Term) Term {
	if av, ok := litVal(a); ok {
		return linTerm(linScale(linOf(b), av))
	}
	if bv, ok := litVal(b); ok {
		return linTerm(linScale(linOf(a), bv))
	}
	x, y := a.S, b.S
	if y < x {
		x, y = y, x
	}
	return Term{S: "(* " + x + " " + y + ")", Sort: SInt}
}

// EDiv / EMod are SMT-LIB (Euclidean) div and mod.
func EDiv(a, b Term) Term {
	av, aok := litVal(a)
	bv, bok := litVal(b)
	if aok && bok && bv.Sign() != 0 {
		q, _ := new(big.Int).DivMod(av, bv, new(big.Int))
		return BigLit(q)
	}
	if bok && bv.Cmp(big.NewInt(1)) == 0 {
		return a
	}
	return app(SInt, "div", a, b)
}

func EMod(a, b Term) Term {
	av, aok := litVal(a)
	bv, bok := litVal(b)
	if aok && bok && bv.Sign() != 0 {
		_, m := new(big.Int).DivMod(av, bv, new(big.Int))
		return BigLit(m)
	}
	return app(SInt, "mod", a, b)
}

func Select(arr, i Term) Term {
	return app(ElemSort(arr.Sort), "select", arr, i)
}

func Store(arr, i, v Term) Term {
	return app(arr.Sort, "store", arr, i, v)
}

func ConstArr(sort Sort, v Term) Term {
	return Term{S: fmt.Sprintf("((as const %s) %s)", sort, v.S), Sort: sort}
}

func Forall(vars []Term, body Term, pats ...Term) Term {
	if body.S == "true" {
		return TTrue
	}
	var b strings.Builder
	b.WriteString("(forall (")
	for _, v := range vars {
		fmt.Fprintf(&b, "(%s %s)", v.S, v.Sort)
	}
	b.WriteString(") ")
	if len(pats) > 0 {
		b.WriteString("(! ")
		b.WriteString(body.S)
		for _, p := range pats {
			fmt.Fprintf(&b, " :pattern (%s)", p.S)
		}
		b.WriteString(")")
	} else {
		b.WriteString(body.S)
	}
	b.WriteString(")")
	return Term{S: b.String(), Sort: SBool}
}

func Exists(vars []Term, body Term) Term {
	if body.S == "false" {
		return TFalse
	}
	var b strings.Builder
	b.WriteString("(exists (")
	for _, v := range vars {
		fmt.Fprintf(&b, "(%s %s)", v.S, v.Sort)
	}
	b.WriteString(") ")
	b.WriteString(body.S)
	b.WriteString(")")
	return Term{S: b.String(), Sort: SBool}
}

func App(sort Sort, fn string, args ...Term) Term {
	if len(args) == 0 {
		return Term{S: fn, Sort: sort}
	}
	return app(sort, fn, args...)
}

// zeroOf gives the zero term of a sort.
func zeroOf(s Sort) Term {
	switch s {
	case SInt:
		return IntLit(0)
	case SBool:
		return TFalse
	}
	return ConstArr(s, zeroOf(ElemSort(s)))
}

func pow2(n uint) *big.Int { return new(big.Int).Lsh(big.NewInt(1), n) }
