package main

import (
	"encoding/json"
	"flag"
	"fmt"
	"go/token"
	"go/types"
	"os"
	"path/filepath"
	"sort"
	"strconv"
	"strings"
	"time"

	"golang.org/x/tools/go/packages"
	"golang.org/x/tools/go/ssa"
	"golang.org/x/tools/go/ssa/ssautil"
)

var (
	repoDir  = envOr("GVC_REPO", "/repo")
	verifDir = envOr("GVC_VERIF", "/verif")
)

func envOr(k, d string) string {
	if v := os.Getenv(k); v != "" {
		return v
	}
	return d
}

const modPath = "github.com/gmrtd/gmrtd"

func main() {
	if len(os.Args) < 2 {
		usage()
	}
	defer cleanupScratch()
	os.Setenv("PATH", "/opt/veriftools/go1.26.8/bin:"+os.Getenv("PATH"))
	for k, v := range map[string]string{"GOFLAGS": "-mod=mod", "GOPROXY": "off", "GOSUMDB": "off", "GOTOOLCHAIN": "local"} {
		os.Setenv(k, v)
	}
	switch os.Args[1] {
	case "check":
		code := cmdCheck(os.Args[2:])
		cleanupScratch()
		os.Exit(code)
	case "func":
		code := cmdFunc(os.Args[2:])
		cleanupScratch()
		os.Exit(code)
	case "replay":
		code := cmdReplay(os.Args[2:])
		cleanupScratch()
		os.Exit(code)
	case "selftest":
		code := cmdSelftest(os.Args[2:])
		cleanupScratch()
		os.Exit(code)
	case "sweep":
		code := cmdSweep(os.Args[2:])
		cleanupScratch()
		os.Exit(code)
	default:
		usage()
	}
}

func usage() {
	fmt.Fprintln(os.Stderr, "usage: gvc check <PROP>|all [--tier quick|thorough] | gvc func <pkgdir> <key> | gvc replay <path> | gvc selftest")
	os.Exit(2)
}

// ---------- loading

func contractFiles() (repoFiles []string, specFiles []string) {
	filepath.WalkDir(repoDir, func(p string, d os.DirEntry, err error) error {
		if err != nil {
			return nil
		}
		if d.IsDir() && (d.Name() == ".git" || d.Name() == "testdata") {
			return filepath.SkipDir
		}
		if !d.IsDir() && d.Name() == "zz_contracts_verif.go" {
			repoFiles = append(repoFiles, p)
		}
		return nil
	})
	specFiles, _ = filepath.Glob(filepath.Join(verifDir, "specs", "*.gvc"))
	sort.Strings(repoFiles)
	sort.Strings(specFiles)
	return
}

type loaded struct {
	eng   *Engine
	files []*ContractFile
	pkgOf map[*ContractFile]string // package path for repo contract files
}

func loadAll(pkgDirs []string) (*loaded, error) {
	repoFiles, specFiles := contractFiles()
	ld := &loaded{pkgOf: map[*ContractFile]string{}}
	var patterns []string
	seenPat := map[string]bool{}
	for _, f := range repoFiles {
		cf, err := ParseContractFile(f)
		if err != nil {
			return nil, err
		}
		rel, _ := filepath.Rel(repoDir, filepath.Dir(f))
		ld.pkgOf[cf] = modPath + "/" + filepath.ToSlash(rel)
		ld.files = append(ld.files, cf)
	}
	for _, f := range specFiles {
		cf, err := ParseContractFile(f)
		if err != nil {
			return nil, err
		}
		ld.files = append(ld.files, cf)
	}
	for _, d := range pkgDirs {
		if !seenPat[d] {
			seenPat[d] = true
			patterns = append(patterns, d)
		}
	}
	env := append(os.Environ(), "PATH=/opt/veriftools/go1.26.8/bin:"+os.Getenv("PATH"), "GOFLAGS=-mod=mod", "GOPROXY=off", "GOSUMDB=off", "GOTOOLCHAIN=local", "CGO_ENABLED=0")
	cfg := &packages.Config{Mode: packages.LoadAllSyntax, Dir: repoDir, Env: env, BuildFlags: []string{"-tags=verif"}}
	pkgs, err := packages.Load(cfg, patterns...)
	if err != nil {
		return nil, err
	}
	nerr := 0
	packages.Visit(pkgs, nil, func(p *packages.Package) {
		for _, e := range p.Errors {
			if strings.HasPrefix(p.PkgPath, modPath) {
				fmt.Fprintf(os.Stderr, "load error in %s: %v\n", p.PkgPath, e)
				nerr++
			}
		}
	})
	if nerr > 0 {
		return nil, fmt.Errorf("%d load errors in repository packages", nerr)
	}
	prog, _ := ssautil.AllPackages(pkgs, ssa.NaiveForm|ssa.GlobalDebug|ssa.InstantiateGenerics)
	prog.Build()
	eng := &Engine{prog: prog, layouts: map[string][]Comp{}, heapSorts: map[string]Sort{}, heapComps: map[string]Comp{}, typeIDs: map[string]int{},
		contracts: map[string]*FuncContract{}, specs: map[string]*SpecFunc{}, fnByKey: map[string]*ssa.Function{}, repoPrefix: modPath, pkgInvs: map[string][]Clause{}, implCache: map[string]map[string]bool{}, disabledFrames: map[string]bool{}, funcIDs: map[*ssa.Function]int{}, funcByID: map[int]*ssa.Function{}, ghostFields: map[string][]GhostField{},
		guards: map[string]map[string]*GuardDecl{}, exclusive: map[string]map[string]*GuardDecl{}, guardDecls: map[string][]*GuardDecl{}}
	for _, cf := range ld.files {
		for _, sf := range cf.Specs {
			if _, dup := eng.specs[sf.Name]; dup {
				return nil, fmt.Errorf("%s:%d: duplicate spec function %s", sf.File, sf.Line, sf.Name)
			}
			eng.specs[sf.Name] = sf
		}
		eng.axioms = append(eng.axioms, cf.Axioms...)
		for _, gf := range cf.Ghosts {
			pp, ok := ld.pkgOf[cf]
			if !ok {
				return nil, fmt.Errorf("%s: ghost fields can only be declared in a package contract file", cf.Path)
			}
			eng.ghostFields[pp+"."+gf.Type] = append(eng.ghostFields[pp+"."+gf.Type], gf)
		}
		if pp, ok := ld.pkgOf[cf]; ok {
			eng.pkgInvs[pp] = append(eng.pkgInvs[pp], cf.Invariants...)
			for i := range cf.Guards {
				gd := &cf.Guards[i]
				eng.guardDecls[pp] = append(eng.guardDecls[pp], gd)
				if gd.Once == "" {
					k := pp + "." + gd.Type
					tgt := eng.guards
					if gd.Exclusive {
						tgt = eng.exclusive
					}
					if tgt[k] == nil {
						tgt[k] = map[string]*GuardDecl{}
					}
					tgt[k][gd.Field] = gd
				}
			}
		} else if len(cf.Guards) > 0 {
			return nil, fmt.Errorf("%s: guarded/immutable declarations belong in a package contract file", cf.Path)
		}
		for _, fc := range cf.Funcs {
			key := fc.Key
			if pp, ok := ld.pkgOf[cf]; ok && !fc.Extern {
				key = pp + "::" + fc.Key
			}
			if _, dup := eng.contracts[key]; dup {
				return nil, fmt.Errorf("%s:%d: duplicate contract for %s", fc.File, fc.Line, fc.Key)
			}
			eng.contracts[key] = fc
		}
	}
	// "implements T": the function is verified against (and callable through) the contract of the function type T
	for _, cf := range ld.files {
		pp, ok := ld.pkgOf[cf]
		if !ok {
			continue
		}
		for _, fc := range cf.Funcs {
			if fc.Implements == "" {
				continue
			}
			tc := eng.contracts[pp+"::("+fc.Implements+").call"]
			if tc == nil {
				return nil, fmt.Errorf("%s:%d: implements %s: no contract for (%s).call in this package", fc.File, fc.Line, fc.Implements, fc.Implements)
			}
			if len(fc.Requires) > 0 {
				return nil, fmt.Errorf("%s:%d: a function that implements %s takes its preconditions from that contract", fc.File, fc.Line, fc.Implements)
			}
			if len(fc.Params) != len(tc.Params) {
				return nil, fmt.Errorf("%s:%d: implements %s: name the parameters in the header as the type contract does", fc.File, fc.Line, fc.Implements)
			}
			for i := range fc.Params {
				if fc.Params[i].Name != tc.Params[i].Name {
					return nil, fmt.Errorf("%s:%d: implements %s: parameter %d must be called %s", fc.File, fc.Line, fc.Implements, i, tc.Params[i].Name)
				}
			}
			if tc.HasAsg {
				return nil, fmt.Errorf("%s:%d: implements %s: a type contract with an assigns clause is not supported", fc.File, fc.Line, fc.Implements)
			}
			fc.Requires = append([]Clause(nil), tc.Requires...)
			fc.Ensures = append(append([]Clause(nil), fc.Ensures...), tc.Ensures...)
		}
	}
	eng.files = ld.files
	eng.knownFailing = map[string]bool{}
	for _, k := range loadKnown() {
		if k.Status == "known" {
			eng.knownFailing[k.Obligation] = true
		}
	}
	ld.eng = eng
	// register the heap components of every named struct type of the repository packages,
	// so that "the object behind an interface" ranges over a fixed key universe
	for _, p := range prog.AllPackages() {
		if !strings.HasPrefix(p.Pkg.Path(), modPath) {
			continue
		}
		for _, name := range p.Pkg.Scope().Names() {
			if tn, ok := p.Pkg.Scope().Lookup(name).(*types.TypeName); ok && !tn.IsAlias() {
				if _, isS := tn.Type().Underlying().(*types.Struct); isS {
					if nt, ok := tn.Type().(*types.Named); ok && nt.TypeParams().Len() > 0 {
						continue
					}
					for j := range eng.layout(tn.Type()) {
						eng.heapKey("H", tn.Type(), j)
					}
				}
			}
		}
	}
	return ld, nil
}

// findFunc resolves a repo contract to its SSA function.
func (ld *loaded) findFunc(cf *ContractFile, fc *FuncContract) *ssa.Function {
	pp := ld.pkgOf[cf]
	for _, p := range ld.eng.prog.AllPackages() {
		if p.Pkg.Path() != pp {
			continue
		}
		// plain function
		if !strings.HasPrefix(fc.Key, "(") {
			if f := p.Func(fc.Key); f != nil {
				return f
			}
			// anonymous function: Outer$1
			for _, m := range p.Members {
				if f, ok := m.(*ssa.Function); ok {
					for _, af := range f.AnonFuncs {
						if af.Name() == fc.Key {
							return af
						}
					}
				}
			}
			return nil
		}
		// method: (T).M or (*T).M
		j := strings.Index(fc.Key, ")")
		recv := fc.Key[1:j]
		mname := fc.Key[j+2:]
		ptr := strings.HasPrefix(recv, "*")
		tn := strings.TrimPrefix(recv, "*")
		obj := p.Pkg.Scope().Lookup(tn)
		if obj == nil {
			return nil
		}
		t := obj.Type()
		if ptr {
			t = typesNewPointer(t)
		}
		if m := ld.eng.prog.LookupMethod(t, p.Pkg, mname); m != nil {
			// reject synthetic wrappers: need the declared receiver kind
			if m.Synthetic != "" {
				return nil
			}
			return m
		}
	}
	return nil
}

// ---------- check command

type knownFinding struct {
	Property   string `json:"property"`
	Obligation string `json:"obligation"`
	What       string `json:"what"`
	Status     string `json:"status"`
	Commit     string `json:"commit,omitempty"`
}

func loadKnown() []knownFinding {
	var out []knownFinding
	data, err := os.ReadFile(filepath.Join(verifDir, "known_findings.jsonl"))
	if err != nil {
		return nil
	}
	for _, l := range strings.Split(string(data), "\n") {
		l = strings.TrimSpace(l)
		if l == "" || strings.HasPrefix(l, "#") {
			continue
		}
		var k knownFinding
		if json.Unmarshal([]byte(l), &k) == nil {
			out = append(out, k)
		}
	}
	return out
}

func oblBaseName(n string) string {
	if i := strings.LastIndex(n, "~"); i >= 0 {
		if _, err := strconv.Atoi(n[i+1:]); err == nil {
			return n[:i]
		}
	}
	return n
}

func cmdCheck(args []string) int {
	fs := flag.NewFlagSet("check", flag.ExitOnError)
	tier := fs.String("tier", envOr("VERIF_TIER", "quick"), "quick|thorough")
	verbose := fs.Bool("v", false, "verbose")
	if len(args) < 1 {
		usage()
	}
	prop := args[0]
	fs.Parse(args[1:])
	t0 := time.Now()
	seed, _ := strconv.Atoi(envOr("VERIF_SEED", "0"))

	// which packages are needed
	repoFiles, _ := contractFiles()
	var dirs []string
	for _, f := range repoFiles {
		cf, err := ParseContractFile(f)
		if err != nil {
			fmt.Fprintln(os.Stderr, "CONTRACT-ERROR:", err)
			return 2
		}
		need := false
		for _, fc := range cf.Funcs {
			if hasProp(fc.Props, prop) {
				need = true
			}
		}
		if need {
			rel, _ := filepath.Rel(repoDir, filepath.Dir(f))
			dirs = append(dirs, "./"+filepath.ToSlash(rel))
		}
	}
	if len(dirs) == 0 {
		fmt.Fprintf(os.Stderr, "no contracts carry property %s\n", prop)
		return 2
	}
	ld, err := loadAll(dirs)
	if err != nil {
		fmt.Fprintln(os.Stderr, "LOAD-ERROR:", err)
		return 2
	}
	loadMs := time.Since(t0).Milliseconds()
	// speculative loop frames known not to hold on the recorded tree (performance hint only: dropping a frame never
	// makes anything provable that was not, so a stale entry costs precision, not soundness)
	framesFile := filepath.Join(verifDir, "tools", "autoframes.json")
	if data, err := os.ReadFile(framesFile); err == nil {
		var ks []string
		if json.Unmarshal(data, &ks) == nil {
			for _, k := range ks {
				ld.eng.disabledFrames[k] = true
			}
		}
	}
	defer func() {
		if os.Getenv("GVC_RECORD_FRAMES") == "" {
			return
		}
		var ks []string
		for k := range ld.eng.disabledFrames {
			ks = append(ks, k)
		}
		sort.Strings(ks)
		if data, err := json.MarshalIndent(ks, "", " "); err == nil {
			os.WriteFile(framesFile, data, 0o644)
		}
	}()
	var reports []*FuncReport
	problems := 0
	for _, cf := range ld.files {
		if _, ok := ld.pkgOf[cf]; !ok {
			continue
		}
		for _, fc := range cf.Funcs {
			if !hasProp(fc.Props, prop) || fc.NoBody {
				continue
			}
			fn := ld.findFunc(cf, fc)
			if fn == nil {
				fmt.Printf("CONTRACT-STALE: %s:%d: function %s not found in %s\n", fc.File, fc.Line, fc.Key, ld.pkgOf[cf])
				problems++
				continue
			}
			rep := ld.eng.verifyFunc(fn, fc)
			reports = append(reports, rep)
		}
	}
	initDone := map[string]bool{}
	for _, r := range append([]*FuncReport(nil), reports...) {
		if r.Fn == nil || r.Fn.Pkg == nil {
			continue
		}
		pp := r.Fn.Pkg.Pkg.Path()
		if initDone[pp] || len(ld.eng.pkgInvs[pp]) == 0 {
			continue
		}
		initDone[pp] = true
		if initFn := r.Fn.Pkg.Func("init"); initFn != nil {
			fc := &FuncContract{Key: "init", Props: []string{prop}, LoopInv: map[int][]Clause{}, LoopDec: map[int]Clause{}, Safety: map[string]bool{}, PkgInit: true}
			for _, inv := range ld.eng.pkgInvs[pp] {
				fc.Ensures = append(fc.Ensures, inv)
			}
			reports = append(reports, ld.eng.verifyFunc(initFn, fc))
		}
	}
	for _, ax := range ld.eng.axioms {
		if ax.Lemma && hasProp(ax.Props, prop) {
			reports = append(reports, ld.eng.verifyLemma(ax))
		}
	}
	reports = append(reports, ld.lockCoverage(prop, reports)...)
	genMs := time.Since(t0).Milliseconds() - loadMs
	var all []*Obligation
	for _, r := range reports {
		all = append(all, r.Obls...)
		for _, e := range r.Errors {
			fmt.Printf("CONTRACT-ERROR: %s: %s\n", r.Name, e)
			problems++
		}
		if r.Unsupported != "" {
			fmt.Printf("OUT-OF-SUBSET: %s: %s\n", r.Name, r.Unsupported)
			problems++
		}
	}
	timeout := 10
	if *tier == "thorough" {
		timeout = 60
	}
	solveAll(all, timeout, 12)
	// speculative loop frames that do not hold are dropped and the function is verified again
	for round := 0; round < 3; round++ {
		redo := false
		for i, r := range reports {
			drop := false
			for _, o := range r.Obls {
				if o.AutoFrame != "" && o.Result != nil && o.Result.Status != "unsat" {
					if len(o.AutoKeys) > 0 {
						for _, k := range o.FailedAuto {
							ld.eng.disabledFrames[k] = true
						}
					} else {
						ld.eng.disabledFrames[o.AutoFrame] = true
					}
					drop = true
				}
			}
			if drop && r.Fn != nil {
				nr := ld.eng.verifyFunc(r.Fn, r.Contract)
				solveAll(nr.Obls, timeout, 12)
				reports[i] = nr
				redo = true
			}
		}
		if !redo {
			break
		}
	}
	all = nil
	for _, r := range reports {
		all = append(all, r.Obls...)
	}
	// undecided obligations (timeout / unknown) get a second, calmer attempt: fewer workers, four times the budget.
	// A refutation (sat) is never retried.
	var retry []*Obligation
	for _, o := range all {
		if !o.Cover && o.Result != nil && o.Result.Status != "unsat" && o.Result.Status != "sat" {
			retry = append(retry, o)
		}
	}
	if len(retry) > 0 && len(retry) <= 40 {
		first := map[*Obligation]int64{}
		for _, o := range retry {
			first[o] = o.Result.Ms
		}
		solveAll(retry, timeout*4, 4)
		for _, o := range retry {
			o.Result.Ms += first[o]
		}
	}
	solveMs := time.Since(t0).Milliseconds() - loadMs - genMs

	known := loadKnown()
	violations := 0
	discharged := 0
	var samples []map[string]interface{}
	var failed []*Obligation
	knownHit := map[string]bool{}
	knownObls := 0
	for _, o := range all {
		ok := false
		if o.Cover {
			ok = o.Result.Status != "unsat" // vacuity: reach must not be refutable
		} else {
			ok = o.Result.Status == "unsat"
		}
		if ok {
			discharged++
			if *verbose {
				fmt.Printf("  ok   %-70s %s %dms\n", o.Name, o.Result.Solver, o.Result.Ms)
			}
			continue
		}
		failed = append(failed, o)
	}
	os.MkdirAll(filepath.Join(verifDir, "replays", prop), 0o755)
	repOf := map[*Obligation]*FuncReport{}
	for _, r := range reports {
		for _, o := range r.Obls {
			repOf[o] = r
		}
	}
	for _, o := range failed {
		if r := repOf[o]; r != nil && !o.Static && os.Getenv("GVC_NO_REPLAY") == "" {
			tryReplay(ld, r, o)
		}
		isKnown := false
		for _, k := range known {
			if k.Property == prop && k.Status == "known" && k.Obligation == oblBaseName(o.Name) {
				isKnown = true
				if !knownHit[k.Obligation] {
					fmt.Printf("KNOWN-FINDING: property=%s %s (%s)\n", prop, k.What, k.Obligation)
					knownHit[k.Obligation] = true
				}
			}
		}
		if isKnown {
			knownObls++
			continue
		}
		violations++
		path := writeReplay(ld, prop, o)
		suffix := ""
		if o.Result.Status != "sat" || !o.replayConfirmed {
			suffix = " no-failing-input-found"
		}
		fmt.Printf("FAILED-OBLIGATION %s status=%s solver=%s pos=%s :: %s\n", o.Name, o.Result.Status, o.Result.Solver, o.Pos, o.Comment)
		if o.replayNote != "" {
			fmt.Printf("  replay: %s\n", o.replayNote)
		}
		fmt.Printf("VIOLATION property=%s replay=%s%s\n", prop, path, suffix)
	}
	// evidence
	for i, o := range all {
		if i%max(1, len(all)/6) == 0 && len(samples) < 8 {
			samples = append(samples, map[string]interface{}{"obligation": o.Name, "kind": o.Kind, "status": o.Result.Status, "solver": o.Result.Solver, "ms": o.Result.Ms, "clause": o.Comment, "pos": o.Pos})
		}
	}
	writeEvidence(prop, *tier, seed, reports, all, discharged, violations, knownObls, samples, float64(time.Since(t0).Milliseconds())/1000, map[string]int64{"load_ms": loadMs, "vcgen_ms": genMs, "solve_ms": solveMs}, problems)
	fmt.Printf("gvc: property=%s tier=%s functions=%d obligations=%d discharged=%d failed=%d known=%d problems=%d wall=%.1fs\n",
		prop, *tier, len(reports), len(all), discharged, violations, len(knownHit), problems, time.Since(t0).Seconds())
	if violations > 0 {
		return 1
	}
	if problems > 0 {
		return 2
	}
	return 0
}

func hasProp(ps []string, p string) bool {
	if p == "all" {
		return true
	}
	for _, q := range ps {
		if q == p {
			return true
		}
	}
	return false
}

func writeEvidence(prop, tier string, seed int, reports []*FuncReport, all []*Obligation, discharged, violations, knownN int, samples []map[string]interface{}, wall float64, timing map[string]int64, problems int) {
	type fnEv struct {
		Name        string         `json:"name"`
		Obligations int            `json:"obligations"`
		Trivial     int            `json:"syntactically_true"`
		Inlined     map[string]int `json:"inlined_callees,omitempty"`
		ByContract  map[string]int `json:"callees_by_contract,omitempty"`
		Havocked    map[string]int `json:"havocked_callees,omitempty"`
		Notes       []string       `json:"abstractions,omitempty"`
	}
	var fns []fnEv
	trust := map[string]bool{}
	bySolver := map[string]int{}
	var solverMs int64
	kinds := map[string]int{}
	for _, r := range reports {
		fns = append(fns, fnEv{r.Name, len(r.Obls), r.Trivial, r.Inlined, r.Calls, r.Havocked, r.Notes})
		for _, t := range r.Trusts {
			trust[t] = true
		}
		for h := range r.Havocked {
			trust["havocked (result arbitrary, assumed not to panic, writes only to directly passed objects): "+h] = true
		}
	}
	for _, o := range all {
		if o.Result != nil {
			bySolver[o.Result.Solver+":"+o.Result.Status]++
			solverMs += o.Result.Ms
		}
		kinds[o.Kind]++
	}
	var tb []string
	for t := range trust {
		tb = append(tb, t)
	}
	sort.Strings(tb)
	assumptions := append([]string{
		"go/ssa (x/tools v0.50.0, NaiveForm) is a faithful lowering of the Go source in /repo",
		"SMT solvers z3 4.8.12 / z3 5.1.0 / cvc5 1.0.3 are sound for the queries issued",
		"termination is proved only for loops carrying a decreases clause",
		"panics inside callees outside /repo without a trusted spec are not modelled",
	}, tb...)
	ev := map[string]interface{}{
		"property_id": prop,
		"tier":        tier,
		"seed":        seed,
		"level":       "proof",
		"coverage": map[string]interface{}{
			"obligations":               len(all) - knownN, // obligations listed in known_findings.jsonl are reported separately
			"known_finding_obligations": knownN,
			"discharged":                discharged,
			"checker_cmd":               fmt.Sprintf("bin/gvc check %s --tier %s", prop, tier),
			"trusted_base":              tb,
			"samples":                   samples,
			"functions_under_contract":  fns,
			"obligations_by_kind":       kinds,
			"decided_by":                bySolver,
			"solver_ms_total":           solverMs,
			"timing_ms":                 timing,
			"engine_problems":           problems,
			"explanation":               "weakest-precondition style VCs generated from go/ssa of /repo's working tree, one SMT query per obligation, callers checked against callee contracts",
		},
		"assumptions": assumptions,
		"wall_s":      wall,
		"violations":  violations,
	}
	os.MkdirAll(filepath.Join(verifDir, "evidence"), 0o755)
	data, _ := json.MarshalIndent(ev, "", " ")
	os.WriteFile(filepath.Join(verifDir, "evidence", prop+".json"), data, 0o644)
}

// ---------- single-function debugging

func cmdFunc(args []string) int {
	if len(args) < 2 {
		usage()
	}
	ld, err := loadAll([]string{args[0]})
	if err != nil {
		fmt.Fprintln(os.Stderr, err)
		return 2
	}
	code := 0
	for _, cf := range ld.files {
		for _, fc := range cf.Funcs {
			if fc.Key != args[1] || fc.NoBody {
				continue
			}
			if _, ok := ld.pkgOf[cf]; !ok {
				continue
			}
			fn := ld.findFunc(cf, fc)
			if fn == nil {
				continue // same key in a package that is not loaded
			}
			rep := ld.eng.verifyFunc(fn, fc)
			solveAll(rep.Obls, 10, 12)
			for round := 0; round < 3; round++ {
				drop := false
				for _, o := range rep.Obls {
					if o.AutoFrame != "" && o.Result.Status != "unsat" {
						if len(o.AutoKeys) > 0 {
							for _, k := range o.FailedAuto {
								ld.eng.disabledFrames[k] = true
							}
						} else {
							ld.eng.disabledFrames[o.AutoFrame] = true
						}
						drop = true
					}
				}
				if !drop {
					break
				}
				rep = ld.eng.verifyFunc(fn, fc)
				solveAll(rep.Obls, 10, 12)
			}
			for _, e := range rep.Errors {
				fmt.Println("ERROR:", e)
			}
			if rep.Unsupported != "" {
				fmt.Println("UNSUPPORTED:", rep.Unsupported)
			}
			for _, n := range rep.Notes {
				fmt.Println("NOTE:", n)
			}
			for _, o := range rep.Obls {
				want := "unsat"
				if o.Cover {
					want = "sat"
				}
				mark := "ok  "
				if (o.Cover && o.Result.Status == "unsat") || (!o.Cover && o.Result.Status != want) {
					mark = "FAIL"
					code = 1
				}
				fmt.Printf("%s %-80s %-7s %-6s %5dms  %s\n", mark, o.Name, o.Result.Status, o.Result.Solver, o.Result.Ms, o.Pos)
				if mark == "FAIL" {
					if len(args) > 2 && args[2] == "-keep" {
						keep := filepath.Join("/var/tmp", "gvc-keep-"+sanitize(o.Name)+".smt2")
						os.WriteFile(keep, []byte(o.smtText(nil, nil)), 0o644)
						fmt.Println("     query kept at", keep)
					}
					if o.Result.Status == "sat" {
						var ks []string
						for k := range o.Result.Model {
							ks = append(ks, k)
						}
						sort.Strings(ks)
						n := 0
						for _, k := range ks {
							if strings.Contains(k, "[") && !(len(args) > 2 && args[2] == "-full") {
								if !strings.HasSuffix(k, "[0]") && !strings.HasSuffix(k, "[1]") && !strings.HasSuffix(k, "[2]") && !strings.HasSuffix(k, "[3]") {
									continue
								}
							}
							fmt.Printf("       %s = %s\n", k, o.Result.Model[k])
							n++
							if n > 30 {
								break
							}
						}
					} else {
						fmt.Println("     ", firstLine(o.Result.Output))
					}
				}
			}
			fmt.Printf("trivial=%d inlined=%v calls=%v havocked=%v vcgen_ms=%d\n", rep.Trivial, rep.Inlined, rep.Calls, rep.Havocked, rep.GenMs)
		}
	}
	return code
}

func sanitize(s string) string {
	return nameClean.ReplaceAllString(s, "_")
}

// cmdSweep: zero-annotation safety sweep of every function of a package that has no contract yet.
// Prints, per function, whether all automatic safety obligations discharge (exploration aid; not a check).
func cmdSweep(args []string) int {
	if len(args) < 1 {
		usage()
	}
	ld, err := loadAll([]string{args[0]})
	if err != nil {
		fmt.Fprintln(os.Stderr, err)
		return 2
	}
	only := ""
	if len(args) > 1 {
		only = args[1]
	}
	rel := strings.TrimPrefix(args[0], "./")
	var pkg *ssa.Package
	for _, p := range ld.eng.prog.AllPackages() {
		if p.Pkg.Path() == modPath+"/"+rel {
			pkg = p
		}
	}
	if pkg == nil {
		fmt.Println("package not found")
		return 2
	}
	var fns []*ssa.Function
	for _, m := range pkg.Members {
		switch x := m.(type) {
		case *ssa.Function:
			fns = append(fns, x)
		case *ssa.Type:
			for _, t := range []types.Type{x.Type(), types.NewPointer(x.Type())} {
				ms := ld.eng.prog.MethodSets.MethodSet(t)
				for i := 0; i < ms.Len(); i++ {
					if f := ld.eng.prog.MethodValue(ms.At(i)); f != nil && f.Synthetic == "" && f.Pkg == pkg {
						fns = append(fns, f)
					}
				}
			}
		}
	}
	sort.Slice(fns, func(i, j int) bool { return fns[i].String() < fns[j].String() })
	seen := map[*ssa.Function]bool{}
	for _, fn := range fns {
		if seen[fn] || fn.Name() == "init" || len(fn.Blocks) == 0 {
			continue
		}
		seen[fn] = true
		key := fn.RelString(fn.Pkg.Pkg)
		if only != "" && key != only {
			continue
		}
		if ld.eng.contractFor(fn) != nil {
			continue
		}
		fc := &FuncContract{Key: key, LoopInv: map[int][]Clause{}, LoopDec: map[int]Clause{}, Safety: map[string]bool{"all": true}, HasSafe: true}
		rep := ld.eng.verifyFunc(fn, fc)
		solveAll(rep.Obls, 8, 12)
		var bad []string
		for _, o := range rep.Obls {
			if o.AutoFrame != "" || o.Cover {
				continue
			}
			if o.Result.Status != "unsat" {
				bad = append(bad, fmt.Sprintf("%s[%s]@%s", strings.TrimPrefix(o.Name, rep.Name), o.Result.Status, o.Pos))
			}
		}
		status := "PASS"
		if rep.Unsupported != "" {
			status = "UNSUP " + rep.Unsupported
		} else if len(bad) > 0 {
			status = fmt.Sprintf("FAIL %d/%d", len(bad), len(rep.Obls))
		}
		fmt.Printf("%-60s %s obls=%d\n", key, status, len(rep.Obls))
		for i, b := range bad {
			if i < 6 {
				fmt.Println("      ", b)
			}
		}
	}
	return 0
}

// lockCoverage: the lock-discipline obligations are generated inside the functions under contract; this scan makes the
// argument complete for a package: every function (or function literal) of the package that touches a guarded field, or
// writes an immutable one, must be one of the functions verified in this run (directly or inlined into one). Package
// variables declared "onceguarded v by once" may only be written inside a function literal handed to once.Do, and only
// be read in a function after it has called once.Do. Both are decided on the program text (SSA), not by a solver.
func (ld *loaded) lockCoverage(prop string, reports []*FuncReport) []*FuncReport {
	eng := ld.eng
	covered := map[*ssa.Function]bool{}
	inlined := map[string]bool{}
	for _, r := range reports {
		if r.Fn != nil && r.Unsupported == "" {
			covered[r.Fn] = true
		}
		for k := range r.Inlined {
			inlined[k] = true
		}
	}
	var out []*FuncReport
	var pkgs []string
	for pp := range eng.guardDecls {
		pkgs = append(pkgs, pp)
	}
	sort.Strings(pkgs)
	all := ssautil.AllFunctions(eng.prog)
	for _, pp := range pkgs {
		var decls []*GuardDecl
		for _, gd := range eng.guardDecls[pp] {
			if hasProp(gd.Props, prop) {
				decls = append(decls, gd)
			}
		}
		if len(decls) == 0 {
			continue
		}
		rep := &FuncReport{Name: "lock-discipline-coverage:" + pp, Key: "lock-discipline-coverage"}
		mk := func(name, pos, comment string, ok bool) {
			o := &Obligation{Name: name, Func: rep.Name, Kind: "guarded", Label: "coverage", Pos: pos, Comment: comment, Props: []string{prop}, Static: true,
				Result: &SolveResult{Status: "unsat", Solver: "ssa-scan"}}
			if !ok {
				o.Result.Status = "refuted-by-scan"
			}
			rep.Obls = append(rep.Obls, o)
		}
		var fns []*ssa.Function
		for fn := range all {
			root := fn
			for root.Parent() != nil {
				root = root.Parent()
			}
			if root.Pkg == nil || root.Pkg.Pkg.Path() != pp || len(fn.Blocks) == 0 || fn.Synthetic != "" {
				continue
			}
			fns = append(fns, fn)
		}
		sort.Slice(fns, func(i, j int) bool { return fns[i].RelString(nil) < fns[j].RelString(nil) })
		onceVar := map[string]*GuardDecl{}
		for _, gd := range decls {
			if gd.Once != "" {
				onceVar[gd.Field] = gd
			}
		}
		completer := ld.onceCompleters(fns, pp, onceVar)
		for _, fn := range fns {
			touches := map[string]token.Pos{}
			// functions literals handed to <once>.Do, and the positions of <once>.Do calls
			for _, b := range fn.Blocks {
				for _, in := range b.Instrs {
					if fa, ok := in.(*ssa.FieldAddr); ok {
						if pt, ok := fa.X.Type().Underlying().(*types.Pointer); ok {
							if nt, ok := pt.Elem().(*types.Named); ok && nt.Obj().Pkg() != nil && nt.Obj().Pkg().Path() == pp {
								fname := nt.Underlying().(*types.Struct).Field(fa.Field).Name()
								hit := false
								if gd := eng.guards[pp+"."+nt.Obj().Name()][fname]; gd != nil && hasProp(gd.Props, prop) && (gd.Mutex != "" || guardedWrite(fa)) {
									hit = true
								}
								if gd := eng.exclusive[pp+"."+nt.Obj().Name()][fname]; gd != nil && hasProp(gd.Props, prop) {
									hit = true
								}
								if hit {
									if _, seen := touches[nt.Obj().Name()+"."+fname]; !seen {
										touches[nt.Obj().Name()+"."+fname] = fa.Pos()
									}
								}
							}
						}
					}
				}
			}
			if len(touches) > 0 {
				ok := covered[fn] || inlined[fn.RelString(nil)]
				var names []string
				for k := range touches {
					names = append(names, k)
				}
				sort.Strings(names)
				p := eng.prog.Fset.Position(fn.Pos())
				mk(fmt.Sprintf("%s#guarded#function-touching-%s-is-under-contract", fn.RelString(nil), strings.Join(names, "+")),
					fmt.Sprintf("%s:%d", strings.TrimPrefix(p.Filename, repoDir+"/"), p.Line),
					"every function that touches a guarded field is verified (its accesses carry lock obligations)", ok)
			}
			if len(onceVar) > 0 {
				ld.onceScan(fn, pp, onceVar, completer, mk)
			}
		}
		out = append(out, rep)
	}
	return out
}

// onceScan: accesses of once-guarded package variables in one function.
// onceCompleters: functions of the package that cannot return without <once>.Do having returned (a call of <once>.Do, or
// of another such function, lies on every path to every return).
func (ld *loaded) onceCompleters(fns []*ssa.Function, pp string, onceVar map[string]*GuardDecl) map[*ssa.Function]map[string]bool {
	out := map[*ssa.Function]map[string]bool{}
	onces := map[string]bool{}
	for _, gd := range onceVar {
		onces[gd.Once] = true
	}
	for changed := true; changed; {
		changed = false
		for _, fn := range fns {
			for once := range onces {
				if out[fn][once] {
					continue
				}
				var rets []*ssa.BasicBlock
				for _, b := range fn.Blocks {
					if len(b.Instrs) > 0 {
						if _, isRet := b.Instrs[len(b.Instrs)-1].(*ssa.Return); isRet {
							rets = append(rets, b)
						}
					}
				}
				done := false
				for _, b := range fn.Blocks {
					for _, in := range b.Instrs {
						c, isCall := in.(*ssa.Call)
						if !isCall {
							continue
						}
						callee := c.Common().StaticCallee()
						if callee == nil {
							continue
						}
						isDo := false
						if callee.RelString(nil) == "(*sync.Once).Do" && len(c.Common().Args) == 2 {
							if g, ok := c.Common().Args[0].(*ssa.Global); ok && g.Pkg.Pkg.Path() == pp && g.Name() == once {
								isDo = true
							}
						}
						if !isDo && !out[callee][once] {
							continue
						}
						all := len(rets) > 0
						for _, rb := range rets {
							if !(b == rb || b.Dominates(rb)) {
								all = false
							}
						}
						if all {
							done = true
						}
					}
				}
				if done {
					if out[fn] == nil {
						out[fn] = map[string]bool{}
					}
					out[fn][once] = true
					changed = true
				}
			}
		}
	}
	return out
}

func (ld *loaded) onceScan(fn *ssa.Function, pp string, onceVar map[string]*GuardDecl, completer map[*ssa.Function]map[string]bool, mk func(name, pos, comment string, ok bool)) {
	eng := ld.eng
	isOnceDo := func(in ssa.Instruction, once string) (lit *ssa.Function, ok bool) {
		c, isCall := in.(ssa.CallInstruction)
		if !isCall {
			return nil, false
		}
		cc := c.Common()
		callee := cc.StaticCallee()
		if callee == nil || callee.RelString(nil) != "(*sync.Once).Do" || len(cc.Args) != 2 {
			return nil, false
		}
		g, isG := cc.Args[0].(*ssa.Global)
		if !isG || g.Pkg.Pkg.Path() != pp || g.Name() != once {
			return nil, false
		}
		switch f := cc.Args[1].(type) {
		case *ssa.Function:
			return f, true
		case *ssa.MakeClosure:
			return f.Fn.(*ssa.Function), true
		}
		return nil, true
	}
	// is fn itself a literal handed to once.Do of its parent?
	insideOnce := map[string]bool{}
	if par := fn.Parent(); par != nil {
		for _, b := range par.Blocks {
			for _, in := range b.Instrs {
				for _, gd := range onceVar {
					if lit, ok := isOnceDo(in, gd.Once); ok && lit == fn {
						insideOnce[gd.Once] = true
					}
				}
			}
		}
	}
	dom := func(a, b ssa.Instruction) bool { // a executes before b on every path
		if a.Block() == b.Block() {
			for _, in := range a.Block().Instrs {
				if in == a {
					return true
				}
				if in == b {
					return false
				}
			}
		}
		return a.Block().Dominates(b.Block())
	}
	for _, b := range fn.Blocks {
		for _, in := range b.Instrs {
			var g *ssa.Global
			write := false
			switch u := in.(type) {
			case *ssa.Store:
				g, _ = u.Addr.(*ssa.Global)
				write = true
			case *ssa.UnOp:
				if u.Op == token.MUL {
					g, _ = u.X.(*ssa.Global)
				}
			}
			if g == nil || g.Pkg.Pkg.Path() != pp {
				// the address of the variable escaping in any other way counts as a write
				for _, op := range in.Operands(nil) {
					if gg, ok := (*op).(*ssa.Global); ok && gg.Pkg.Pkg.Path() == pp && onceVar[gg.Name()] != nil {
						if _, isStore := in.(*ssa.Store); !isStore {
							if u, isLoad := in.(*ssa.UnOp); !(isLoad && u.Op == token.MUL) {
								g, write = gg, true
							}
						}
					}
				}
				if g == nil || g.Pkg.Pkg.Path() != pp {
					continue
				}
			}
			gd := onceVar[g.Name()]
			if gd == nil || fn.Name() == "init" {
				continue
			}
			ok := insideOnce[gd.Once]
			if !ok && !write {
				for _, b2 := range fn.Blocks {
					for _, in2 := range b2.Instrs {
						_, isDo := isOnceDo(in2, gd.Once)
						if c, isCall := in2.(*ssa.Call); isCall && !isDo {
							if callee := c.Common().StaticCallee(); callee != nil && completer[callee][gd.Once] {
								isDo = true
							}
						}
						if isDo && dom(in2, in) {
							ok = true
						}
					}
				}
			}
			p := eng.prog.Fset.Position(in.Pos())
			kind := "read-after-" + gd.Once + ".Do"
			if write {
				kind = "written-only-inside-" + gd.Once + ".Do"
			}
			mk(fmt.Sprintf("%s#guarded#%s-%s", fn.RelString(nil), g.Name(), kind), fmt.Sprintf("%s:%d", strings.TrimPrefix(p.Filename, repoDir+"/"), p.Line),
				"package variable "+g.Name()+" is initialised once: written only in the function handed to "+gd.Once+".Do, read only after "+gd.Once+".Do returned", ok)
		}
	}
}
