package main

// Calls: builtins, contracts, inlining, trusted externs, havoc.

import (
	"fmt"
	"go/types"
	"sort"
	"strings"

	"golang.org/x/tools/go/ssa"
)

func (fr *Frame) call(cc *ssa.CallCommon, instr ssa.Value, rt types.Type) *Value {
	x := fr.x
	if len(x.proxies) > 0 {
		if _, isBuiltin := cc.Value.(*ssa.Builtin); !isBuiltin {
			for _, pr := range x.proxies {
				x.syncProxy(fr.cur, pr, true)
			}
			defer func() {
				for _, pr := range x.proxies {
					x.syncProxy(fr.cur, pr, false)
				}
			}()
		}
	}
	if rt == nil {
		rt = cc.Signature().Results()
	}
	var args []*Value
	if cc.IsInvoke() {
		args = append(args, fr.val(cc.Value))
	}
	for _, a := range cc.Args {
		args = append(args, fr.val(a))
	}
	if cc.IsInvoke() {
		return fr.invoke(cc, args, rt)
	}
	if b, ok := cc.Value.(*ssa.Builtin); ok {
		return fr.builtin(b, cc, args, rt)
	}
	callee := cc.StaticCallee()
	var bindings []*Value
	if mc, ok := cc.Value.(*ssa.MakeClosure); ok {
		callee = mc.Fn.(*ssa.Function)
		for _, b := range mc.Bindings {
			bindings = append(bindings, fr.val(b))
		}
	}
	if callee == nil {
		// a function value that is a known function constant (passed as an argument)
		if fv := fr.vals[cc.Value]; fv != nil && len(fv.C) == 1 {
			if id, ok := litVal(fv.C[0]); ok {
				if fn := x.eng.funcByID[int(id.Int64())]; fn != nil {
					return x.callFunction(fr, fn, args, nil, rt)
				}
			}
		}
		// a value of a named function type with a (trusted) contract: key "(TypeName).call"
		if n, ok := cc.Value.Type().(*types.Named); ok && n.Obj().Pkg() != nil {
			if fc, ok := x.eng.contracts[n.Obj().Pkg().Path()+"::("+n.Obj().Name()+").call"]; ok {
				fr.safety("nil", Neq(fr.val(cc.Value).C[0], IntLit(0)), "nil-func-call")
				return fr.applyContractSig(fc, nil, cc.Signature(), args, rt, false)
			}
		}
		return fr.havocCall("dynamic call", cc.Signature(), args, rt, false)
	}
	return x.callFunction(fr, callee, args, bindings, rt)
}

// implementsTerm: does the dynamic type with this tag implement interface it?
// Known concrete types are decided statically; unknown tags stay uninterpreted.
func (x *Exec) implementsTerm(tag Term, it types.Type) Term {
	e := x.eng
	iface := it.Underlying().(*types.Interface)
	if id, ok := litVal(tag); ok && id.Int64() > 0 && int(id.Int64()) <= len(e.typeByID) {
		return BoolLit(types.Implements(e.typeByID[id.Int64()-1], iface))
	}
	fn := fmt.Sprintf("impl$%d", e.typeID(it))
	key := "decl|" + fn
	if _, ok := x.ctx.named[key]; !ok {
		x.ctx.named[key] = TTrue
		x.ctx.globals = append(x.ctx.globals, fmt.Sprintf("(declare-fun %s (Int) Bool)", fn))
	}
	// facts for the concrete types seen so far (bytes.Buffer in particular)
	if bt := e.bufferType(); bt != nil {
		e.typeID(types.NewPointer(bt))
	}
	for i, t := range e.typeByID {
		if _, isI := t.Underlying().(*types.Interface); isI {
			continue
		}
		k2 := fmt.Sprintf("%s|%d", key, i+1)
		if _, ok := x.ctx.named[k2]; ok {
			continue
		}
		x.ctx.named[k2] = TTrue
		x.ctx.globals = append(x.ctx.globals, fmt.Sprintf("(assert (= (%s %d) %v))", fn, i+1, types.Implements(t, iface)))
	}
	return App(SBool, fn, tag)
}

func calleeKeys(fn *ssa.Function) []string {
	f := fn
	if f.Origin() != nil {
		f = f.Origin()
	}
	var keys []string
	if f.Pkg != nil {
		keys = append(keys, f.Pkg.Pkg.Path()+"::"+f.RelString(f.Pkg.Pkg))
	}
	keys = append(keys, f.RelString(nil))
	return keys
}

func (e *Engine) contractFor(fn *ssa.Function) *FuncContract {
	for _, k := range calleeKeys(fn) {
		if fc, ok := e.contracts[k]; ok {
			return fc
		}
	}
	return nil
}

func (e *Engine) inRepo(fn *ssa.Function) bool {
	f := fn
	if f.Origin() != nil {
		f = f.Origin()
	}
	if f.Pkg == nil {
		if f.Parent() != nil {
			return e.inRepo(f.Parent())
		}
		return false
	}
	return strings.HasPrefix(f.Pkg.Pkg.Path(), e.repoPrefix)
}

func (x *Exec) callFunction(fr *Frame, callee *ssa.Function, args, bindings []*Value, rt types.Type) *Value {
	e := x.eng
	name := callee.RelString(nil)
	if callee.Origin() != nil {
		name = callee.Origin().RelString(nil)
	}
	if h, ok := externs[name]; ok {
		if v, done := h(fr, callee, args, rt); done {
			return v
		}
	}
	if callee.Name() == "init" && callee.Synthetic != "" {
		return nil // initialisers of imported packages: outside the verified unit
	}
	fc := e.contractFor(callee)
	if x.cur.fc != nil {
		for _, fb := range x.cur.fc.Forbids {
			if callee.Name() == fb {
				fr.obligation("forbidden-call", fb, fr.reach, TFalse, "contract forbids calling "+fb+" from here")
			}
		}
	}
	if fc != nil && !fc.Inline {
		return fr.applyContract(fc, callee, args, rt)
	}
	if (e.inRepo(callee) || (fc != nil && fc.Inline) || inlineExtern[name] || callee.Synthetic != "") && len(callee.Blocks) > 0 {
		if !x.onStack(callee) && fr.depth < 6 {
			return fr.inline(callee, args, bindings, rt)
		}
		x.ctx.Note(fmt.Sprintf("%s: call to %s not inlined (recursion/depth): havoc", fr.fn.Name(), name))
		return fr.havocCall(name, callee.Signature, args, rt, false)
	}
	return fr.havocCall(name, callee.Signature, args, rt, pureCallee(callee))
}

// external functions small enough to execute symbolically
var inlineExtern = map[string]bool{}

func (x *Exec) onStack(fn *ssa.Function) bool {
	for _, f := range x.stack {
		if f == fn {
			return true
		}
	}
	return false
}

var purePkgs = map[string]bool{
	"fmt": true, "strings": true, "strconv": true, "errors": true, "log/slog": true, "log": true,
	"unicode": true, "unicode/utf8": true, "math": true, "math/bits": true, "time": true, "bytes": true,
	"encoding/hex": true, "slices": true, "maps": true, "os": true, "reflect": true, "sync": true,
	"crypto/subtle": true, "hash": true, "crypto/elliptic": true,
}

func pureCallee(fn *ssa.Function) bool {
	f := fn
	if f.Origin() != nil {
		f = f.Origin()
	}
	if f.Pkg == nil {
		return false
	}
	if (f.Name() == "String" || f.Name() == "Error") && f.Signature.Recv() != nil && f.Signature.Params().Len() == 0 {
		return true // renderings do not write to their receiver
	}
	return purePkgs[f.Pkg.Pkg.Path()]
}

// ---------- havoc

func resultErrIndex(rt types.Type) int {
	if t, ok := rt.(*types.Tuple); ok {
		for i := t.Len() - 1; i >= 0; i-- {
			if isErrorType(t.At(i).Type()) {
				return i
			}
		}
		return -1
	}
	return -1
}

func isErrorType(t types.Type) bool {
	n, ok := t.(*types.Named)
	return ok && n.Obj().Pkg() == nil && n.Obj().Name() == "error"
}

func (fr *Frame) freshResult(hint string, rt types.Type) *Value {
	if rt == nil {
		return nil
	}
	if t, ok := rt.(*types.Tuple); ok && t.Len() == 0 {
		return nil
	}
	if t, ok := rt.(*types.Tuple); ok && t.Len() == 1 {
		rt = t.At(0).Type()
	}
	return fr.havocValue(hint, rt)
}

// havocCall abstracts an unknown callee: results arbitrary; objects directly
// passed by pointer and slice contents are arbitrary afterwards unless pure.
func (fr *Frame) havocCall(name string, sig *types.Signature, args []*Value, rt types.Type, pure bool) *Value {
	x := fr.x
	c := x.ctx
	st := fr.cur
	if !pure {
		for _, a := range args {
			fr.havocReachable(a)
		}
	}
	na := c.Fresh("alloc", SInt)
	c.Assume(Le(st.alloc, na))
	x.setAlloc(st, na)
	x.cur.havocked[name]++
	return fr.freshResult("r_"+shortName(name), rt)
}

func shortName(n string) string {
	if i := strings.LastIndexAny(n, "/."); i >= 0 {
		return n[i+1:]
	}
	return n
}

// havocReachable makes the memory directly reachable from v arbitrary.
func (fr *Frame) havocReachable(v *Value) {
	x := fr.x
	e := x.eng
	st := fr.cur
	if v == nil || v.T == nil {
		return
	}
	switch u := v.T.Underlying().(type) {
	case *types.Pointer:
		if v.P != nil && (v.P.Local != nil || v.P.Global != nil || len(v.P.Path) > 0 || v.P.Elem) {
			// pointer to a local cell or interior location
			lt := x.locType(x.normPtr(v.P))
			x.Store(st, v.P, fr.havocValue("hv", lt))
			return
		}
		el := u.Elem()
		if _, isArr := el.Underlying().(*types.Array); isArr && !isGhostType(el) {
			x.Store(st, x.ptrOf(v), fr.havocValue("hv", el))
			return
		}
		x.Store(st, x.ptrOf(v), fr.havocValue("hv", el))
	case *types.Slice:
		for j := range e.layout(u.Elem()) {
			key, srt := e.heapKey("M", u.Elem(), j)
			h := x.heapGet(st, key)
			row := x.ctx.Fresh("hvrow", ElemSort(srt))
			x.ctx.Assume(e.rowRangeAxiom(key, row))
			// a nil slice has no backing array: nothing is written
			x.heapSetAt(st, key, x.ctx.Name("M", Ite(Eq(v.C[0], IntLit(0)), h, Store(h, v.C[0], row))), v.C[0])
		}
	case *types.Interface:
		if isStreamIface(u) && e.bufferType() != nil {
			// readers/writers are modelled as ghost stream objects
			x.Store(st, &Ptr{Heap: v.C[1], RootT: e.bufferType()}, fr.havocValue("hvstream", e.bufferType()))
			return
		}
		if id, ok := litVal(v.C[0]); ok && id.Int64() > 0 && int(id.Int64()) <= len(e.typeByID) {
			t := e.typeByID[id.Int64()-1]
			if pt, ok := t.Underlying().(*types.Pointer); ok {
				pv := &Value{T: t, C: []Term{v.C[1]}}
				_ = pt
				fr.havocReachable(pv)
			}
		} else if _, ok := litVal(v.C[0]); !ok {
			// unknown dynamic type: the object behind the interface may change, whatever its type
			impl := e.implementers(u)
			for _, key := range sortedKeys(e.heapSorts) {
				if !strings.HasPrefix(key, "H:") {
					continue
				}
				if j := strings.LastIndex(key, "#"); j < 0 || !impl[key[2:j]] {
					continue
				}
				srt := e.heapSorts[key]
				h := x.heapGet(st, key)
				nv := x.ctx.Fresh("hvobj", ElemSort(srt))
				if cp, ok := e.heapComps[key]; ok && cp.Kind == "int" && cp.Lo != nil {
					x.ctx.Assume(And(Le(BigLit(cp.Lo), nv), Le(nv, BigLit(cp.Hi))))
				}
				x.heapSetAt(st, key, x.ctx.Name("H", Store(h, v.C[1], nv)), v.C[1])
			}
		}
	case *types.Struct:
		// struct passed by value: fields that are pointers/slices
		off := 0
		for i := 0; i < u.NumFields(); i++ {
			ft := u.Field(i).Type()
			n := len(e.layout(ft))
			switch ft.Underlying().(type) {
			case *types.Pointer, *types.Slice:
				fr.havocReachable(e.sub(v, off, n, ft))
			}
			off += n
		}
	}
}

// implementers: named struct types of the program whose (pointer) method set implements iface.
func (e *Engine) implementers(iface *types.Interface) map[string]bool {
	k := "impl|" + iface.String()
	if m, ok := e.implCache[k]; ok {
		return m
	}
	m := map[string]bool{}
	for _, p := range e.prog.AllPackages() {
		for _, name := range p.Pkg.Scope().Names() {
			tn, ok := p.Pkg.Scope().Lookup(name).(*types.TypeName)
			if !ok || tn.IsAlias() {
				continue
			}
			t := tn.Type()
			if _, isI := t.Underlying().(*types.Interface); isI {
				continue
			}
			if nt, ok := t.(*types.Named); ok && nt.TypeParams().Len() > 0 {
				continue
			}
			if types.Implements(t, iface) || types.Implements(types.NewPointer(t), iface) {
				m[typeKey(t)] = true
			}
		}
	}
	e.implCache[k] = m
	return m
}

func isStreamIface(u *types.Interface) bool {
	for i := 0; i < u.NumMethods(); i++ {
		switch u.Method(i).Name() {
		case "Read", "Write", "ReadByte":
			return true
		}
	}
	return false
}

// havocAll forgets the whole heap.
func (x *Exec) havocAll(st *State) {
	st.content = nil
	// lock-neutrality: a call returns with the mutexes of the calling goroutine as they were (proved for every
	// verified function without a frame - obligation "lock-neutral" - and assumed for unmodelled callees)
	keepH, keepB := map[string]Term{}, map[string]Term{}
	for _, k := range x.eng.lockKeys() {
		keepH[k] = x.heapGet(st, k)
	}
	st.heap = keepH
	st.base = keepB
	st.havocked = true
	if len(keepH) > 0 {
		x.ctx.Trust("lock-neutrality of calls without a frame: unmodelled callees are assumed to return with the caller's mutexes as they were (proved for verified functions: obligation lock-neutral)")
	}
	if x.logging {
		x.writeLog["$all"] = true
	}
}

// ---------- interface method calls

func (fr *Frame) invoke(cc *ssa.CallCommon, args []*Value, rt types.Type) *Value {
	x := fr.x
	e := x.eng
	recvT := cc.Value.Type()
	// contract on the interface method: key "(Iface).Method"
	if n, ok := recvT.(*types.Named); ok {
		keys := []string{}
		if n.Obj().Pkg() != nil {
			keys = append(keys, n.Obj().Pkg().Path()+"::("+n.Obj().Name()+")."+cc.Method.Name())
			keys = append(keys, "("+n.Obj().Pkg().Path()+"."+n.Obj().Name()+")."+cc.Method.Name())
		} else {
			keys = append(keys, "("+n.Obj().Name()+")."+cc.Method.Name())
		}
		for _, k := range keys {
			if h, ok := externs[k]; ok {
				if v, done := h(fr, nil, args, rt); done {
					return v
				}
			}
			if fc, ok := e.contracts[k]; ok {
				return fr.applyContractSig(fc, nil, cc.Method.Type().(*types.Signature), args, rt, true)
			}
		}
	}
	// static devirtualisation when the dynamic type is a known literal
	if id, ok := litVal(args[0].C[0]); ok && id.Int64() > 0 && int(id.Int64()) <= len(e.typeByID) {
		t := e.typeByID[id.Int64()-1]
		if m := e.prog.LookupMethod(t, cc.Method.Pkg(), cc.Method.Name()); m != nil {
			var recv *Value
			if _, isP := t.Underlying().(*types.Pointer); isP {
				recv = &Value{T: t, C: []Term{args[0].C[1]}}
			} else {
				recv = x.Load(fr.cur, &Ptr{Heap: args[0].C[1], RootT: t})
				recv.T = t
			}
			nargs := append([]*Value{recv}, args[1:]...)
			return x.callFunction(fr, m, nargs, nil, rt)
		}
	}
	name := recvT.String() + "." + cc.Method.Name()
	if cc.Method.Name() == "Len" && len(args) == 1 && e.bufferType() != nil {
		// Len() of a stream object (bytes.Buffer / bytes.Reader) is its ghost length
		bt := e.bufferType()
		res := fr.havocValue("len", types.Typ[types.Int])
		_, isB := x.readerRef(args[0])
		g := x.Load(fr.cur, &Ptr{Heap: args[0].C[1], RootT: bt})
		x.ctx.Assume(Implies(isB, Eq(res.C[0], g.C[2])))
		x.ctx.Assume(And(Le(IntLit(0), g.C[2]), Le(g.C[2], BigLit(pow2(40)))))
		x.ctx.Assume(Le(IntLit(0), res.C[0]))
		x.ctx.Trust("Len() invoked on an interface holding *bytes.Buffer returns the ghost stream length")
		return res
	}
	if cc.Method.Name() == "Error" || cc.Method.Name() == "String" {
		return fr.havocCall(name, cc.Signature(), args, rt, true)
	}
	return fr.havocCall(name, cc.Signature(), args[1:], rt, false)
}

// ---------- builtins

func (fr *Frame) builtin(b *ssa.Builtin, cc *ssa.CallCommon, args []*Value, rt types.Type) *Value {
	x := fr.x
	c := x.ctx
	switch b.Name() {
	case "len":
		a := args[0]
		switch u := a.T.Underlying().(type) {
		case *types.Slice:
			return &Value{T: rt, C: []Term{a.C[2]}}
		case *types.Basic:
			return &Value{T: rt, C: []Term{a.C[2]}}
		case *types.Array:
			return &Value{T: rt, C: []Term{IntLit(u.Len())}}
		case *types.Pointer:
			return &Value{T: rt, C: []Term{IntLit(u.Elem().Underlying().(*types.Array).Len())}}
		case *types.Map:
			n := c.Name("maplen", App(SInt, "maplen", a.C[0]))
			x.declareMapLen()
			c.Assume(Le(IntLit(0), n))
			return &Value{T: rt, C: []Term{n}}
		}
		v := fr.havocValue("len", rt)
		c.Assume(Le(IntLit(0), v.C[0]))
		return v
	case "cap":
		a := args[0]
		switch u := a.T.Underlying().(type) {
		case *types.Slice:
			return &Value{T: rt, C: []Term{a.C[3]}}
		case *types.Array:
			return &Value{T: rt, C: []Term{IntLit(u.Len())}}
		}
		return fr.havocValue("cap", rt)
	case "append":
		return fr.appendOp(args[0], args[1], rt)
	case "copy":
		return fr.copyOp(args[0], args[1], rt)
	case "min", "max":
		t := args[0].term()
		for _, a := range args[1:] {
			if b.Name() == "min" {
				t = Ite(Le(t, a.term()), t, a.term())
			} else {
				t = Ite(Le(t, a.term()), a.term(), t)
			}
		}
		return &Value{T: rt, C: []Term{c.Name("mm", t)}}
	case "delete", "print", "println", "clear", "close":
		return nil
	case "recover":
		for f := fr; f != nil; f = f.parent {
			if f.inPanicEdge {
				// on the modelled recovered-panic path the value is some non-nil interface value
				v := fr.havocValue("recovered", rt)
				c.Assume(Neq(v.C[0], IntLit(0)))
				return v
			}
		}
		return &Value{T: rt, C: []Term{IntLit(0), IntLit(0)}}
	case "ssa:wrapnilchk":
		return args[0]
	case "ssa:deferstack":
		return &Value{T: rt, C: []Term{IntLit(0)}}
	case "real", "imag", "complex":
		return fr.havocValue("cplx", rt)
	}
	fr.unsupported("builtin %s", b.Name())
	return nil
}

func (x *Exec) declareMapLen() {
	if _, ok := x.ctx.named["decl|maplen"]; !ok {
		x.ctx.named["decl|maplen"] = TTrue
		x.ctx.globals = append(x.ctx.globals, "(declare-fun maplen (Int) Int)")
	}
}

// rangeCopy returns an array equal to base except that [dlo, dlo+n) holds src[slo, slo+n).
func (fr *Frame) rangeCopy(base Term, dlo Term, src Term, slo Term, n Term) Term {
	c := fr.x.ctx
	if nv, ok := litVal(n); ok && nv.Int64() <= 40 {
		t := base
		for i := int64(0); i < nv.Int64(); i++ {
			t = Store(t, Add(dlo, IntLit(i)), Select(src, Add(slo, IntLit(i))))
		}
		return c.Name("cp", t)
	}
	r := c.Fresh("cp", base.Sort)
	k := Term{S: "k$c", Sort: SInt}
	body := Eq(Select(r, k), Ite(And(Le(dlo, k), Lt(k, Add(dlo, n))), Select(src, Add(slo, Sub(k, dlo))), Select(base, k)))
	c.Assume(Forall([]Term{k}, body, Select(r, k)))
	return r
}

func (fr *Frame) appendOp(s, t *Value, rt types.Type) *Value {
	x := fr.x
	e := x.eng
	c := x.ctx
	st := fr.cur
	el := s.T.Underlying().(*types.Slice).Elem()
	var tn Term
	srcIsString := isString(t.T)
	if srcIsString {
		tn = t.C[2]
	} else {
		tn = t.C[2]
	}
	ls, cs := s.C[2], s.C[3]
	newLen := c.Name("alen", Add(ls, tn))
	if nv, ok := litVal(tn); ok && nv.Sign() == 0 {
		return &Value{T: rt, C: s.C}
	}
	inplace := c.Name("inplace", Le(newLen, cs))
	var recSeq *SeqV
	if len(e.layout(el)) == 1 {
		envPre := &SpecEnv{x: x, st: st}
		func() {
			defer func() { recover() }()
			recSeq = catSeq(envPre.toSeq(s), envPre.toSeq(t))
		}()
	}
	fresh := x.newRef(st, "app")
	newCap := c.Fresh("acap", SInt)
	c.Assume(And(Le(newLen, newCap), Le(newCap, BigLit(pow2(47)))))
	rref := c.Name("aref", Ite(inplace, s.C[0], fresh))
	roff := c.Name("aoff", Ite(inplace, s.C[1], IntLit(0)))
	for j := range e.layout(el) {
		key, _ := e.heapKey("M", el, j)
		M := x.heapGet(st, key)
		rowS := x.rowOf(M, s.C[0])
		var rowT, offT Term
		if srcIsString {
			rowT, offT = t.C[0], t.C[1]
		} else {
			rowT, offT = x.rowOf(M, t.C[0]), t.C[1]
		}
		// one row for both cases: [roff, roff+ls) keeps s, [roff+ls, roff+newLen) holds t,
		// everything else is unchanged (in place) or zero (fresh array)
		zero := zeroOf(rowS.Sort)
		var row Term
		lsv, lsLit := litVal(ls)
		tnv, tnLit := litVal(tn)
		if lsLit && tnLit && lsv.Int64()+tnv.Int64() <= 16 {
			base := c.Name("abase", Ite(inplace, rowS, zero))
			row = base
			for i := int64(0); i < lsv.Int64(); i++ {
				row = Store(row, Add(roff, IntLit(i)), Select(rowS, Add(s.C[1], IntLit(i))))
			}
			for i := int64(0); i < tnv.Int64(); i++ {
				row = Store(row, Add(roff, IntLit(lsv.Int64()+i)), Select(rowT, Add(offT, IntLit(i))))
			}
			row = c.Name("arow", row)
		} else {
			row = c.Fresh("arow", rowS.Sort)
			k := Term{S: "k$c", Sort: SInt}
			rel := Sub(k, roff)
			body := Eq(Select(row, k),
				Ite(And(Le(IntLit(0), rel), Lt(rel, ls)), Select(rowS, Add(s.C[1], rel)),
					Ite(And(Le(ls, rel), Lt(rel, newLen)), Select(rowT, Add(offT, Sub(rel, ls))),
						Ite(inplace, Select(rowS, k), Select(zero, k)))))
			c.Assume(Forall([]Term{k}, body, Select(row, k)))
		}
		x.heapSetAt(st, key, c.Name("M", Store(M, rref, row)), rref)
	}
	out := &Value{T: rt, C: []Term{rref, roff, newLen, c.Name("acap", Ite(inplace, cs, newCap))}}
	if recSeq != nil {
		if st.content == nil {
			st.content = map[string]*contentRec{}
		}
		st.content[rref.S] = &contentRec{off: roff, ln: newLen, seq: recSeq}
	}
	return out
}

func (fr *Frame) copyOp(d, s *Value, rt types.Type) *Value {
	x := fr.x
	e := x.eng
	c := x.ctx
	st := fr.cur
	el := d.T.Underlying().(*types.Slice).Elem()
	n := c.Name("ncopy", Ite(Le(d.C[2], s.C[2]), d.C[2], s.C[2]))
	// a copy that overwrites the whole destination: remember the symbolic content
	var recSeq *SeqV
	if len(e.layout(el)) == 1 && sameTerm(n, d.C[2]) {
		envPre := &SpecEnv{x: x, st: st}
		func() {
			defer func() { recover() }()
			src := envPre.toSeq(s)
			if src.HasRow {
				recSeq = rowSeq(src.Row, src.Off, n)
			} else {
				at := src.At
				recSeq = &SeqV{Len: n, At: at}
			}
		}()
	}
	defer func() {
		if recSeq != nil {
			if st.content == nil {
				st.content = map[string]*contentRec{}
			}
			st.content[d.C[0].S] = &contentRec{off: d.C[1], ln: d.C[2], seq: recSeq}
		}
	}()
	for j := range e.layout(el) {
		key, _ := e.heapKey("M", el, j)
		M := x.heapGet(st, key)
		rowD := x.rowOf(M, d.C[0])
		var rowS, offS Term
		if isString(s.T) {
			rowS, offS = s.C[0], s.C[1]
		} else {
			rowS, offS = x.rowOf(M, s.C[0]), s.C[1]
		}
		row := fr.rangeCopy(rowD, d.C[1], rowS, offS, n)
		x.heapSetAt(st, key, c.Name("M", Store(M, d.C[0], row)), d.C[0])
	}
	return &Value{T: rt, C: []Term{n}}
}

// ---------- maps (opaque)

// ---------- maps with integer keys: (domain, values) per map object
//
// A map[K]V with an integer key type is a pair of heap rows per map object: "P:<type>#dom" (Int -> Bool)
// and one "P:<type>#j" row (Int -> component) per component of V. Other key types stay abstract (arbitrary
// lookups, arbitrary iteration). Maps are not modified by callees with contracts unless the engine sees the
// update instruction (trusted: callees receiving a map do not write to it).
func (x *Exec) intKeyedMap(t types.Type) (*types.Map, bool) {
	mt, ok := t.Underlying().(*types.Map)
	if !ok {
		return nil, false
	}
	if b, ok := mt.Key().Underlying().(*types.Basic); ok && b.Info()&types.IsInteger != 0 {
		return mt, true
	}
	return nil, false
}

func (x *Exec) mapKeys(mt *types.Map) (dom string, vals []string) {
	tk := typeKey(mt)
	dom = "P:" + tk + "#dom"
	x.eng.heapSorts[dom] = ArrOf(ArrOf(SBool))
	for j, cp := range x.eng.layout(mt.Elem()) {
		k := fmt.Sprintf("P:%s#%d", tk, j)
		x.eng.heapSorts[k] = ArrOf(ArrOf(cp.Sort))
		vals = append(vals, k)
	}
	return
}

// newMapObject: a fresh map has an empty domain.
func (x *Exec) newMapObject(st *State, mt *types.Map, ref Term) {
	dom, _ := x.mapKeys(mt)
	row := x.ctx.Fresh("emptydom", ArrOf(SBool))
	k := Term{S: "k$e", Sort: SInt}
	x.ctx.Assume(Forall([]Term{k}, Not(Select(row, k)), Select(row, k)))
	x.heapSetAt(st, dom, x.ctx.Name("P", Store(x.heapGet(st, dom), ref, row)), ref)
}

func (x *Exec) mapGet(fr *Frame, mv, key *Value, rt types.Type, commaOk bool) *Value {
	if mt, ok := x.intKeyedMap(mv.T); ok {
		st := fr.cur
		dom, vals := x.mapKeys(mt)
		k := key.term()
		present := And(Neq(mv.C[0], IntLit(0)), Select(Select(x.heapGet(st, dom), mv.C[0]), k))
		z := x.eng.zeroValue(mt.Elem())
		vt := mt.Elem()
		out := &Value{T: vt}
		for j, vk := range vals {
			out.C = append(out.C, x.ctx.Name("mv", Ite(present, Select(Select(x.heapGet(st, vk), mv.C[0]), k), z.C[j])))
		}
		if commaOk {
			tt := rt.(*types.Tuple)
			res := &Value{T: tt}
			res.C = append(res.C, out.C...)
			res.C = append(res.C, present)
			return res
		}
		out.T = rt
		return out
	}
	if commaOk {
		tt := rt.(*types.Tuple)
		v := fr.havocValue("mapv", tt.At(0).Type())
		ok := x.ctx.Fresh("mapok", SBool)
		z := x.eng.zeroValue(tt.At(0).Type())
		out := &Value{T: rt}
		for j := range v.C {
			out.C = append(out.C, Ite(ok, v.C[j], z.C[j]))
		}
		out.C = append(out.C, And(Neq(mv.C[0], IntLit(0)), ok))
		return out
	}
	return fr.havocValue("mapv", rt)
}

func (x *Exec) mapUpdate(fr *Frame, mv, key, val *Value) {
	mt, ok := x.intKeyedMap(mv.T)
	if !ok {
		return
	}
	st := fr.cur
	dom, vals := x.mapKeys(mt)
	k := key.term()
	d := x.heapGet(st, dom)
	x.heapSetAt(st, dom, x.ctx.Name("P", Store(d, mv.C[0], Store(Select(d, mv.C[0]), k, TTrue))), mv.C[0])
	for j, vk := range vals {
		h := x.heapGet(st, vk)
		x.heapSetAt(st, vk, x.ctx.Name("P", Store(h, mv.C[0], Store(Select(h, mv.C[0]), k, val.C[j]))), mv.C[0])
	}
}

// ---------- inlining

func (fr *Frame) inline(callee *ssa.Function, args, bindings []*Value, rt types.Type) *Value {
	x := fr.x
	c := x.ctx
	sub := x.newFrame(callee, fr, x.eng.contractFor(callee))
	sub.entrySt = fr.cur.Clone()
	if len(args) != len(callee.Params) {
		fr.unsupported("inline %s: %d args for %d params", callee.Name(), len(args), len(callee.Params))
	}
	sub.argVars = map[string]*Value{}
	for i, p := range callee.Params {
		sub.vals[p] = args[i]
		sub.argVars[p.Name()] = args[i]
	}
	sub.freeVars = map[*ssa.FreeVar]*Value{}
	for i, fv := range callee.FreeVars {
		if i < len(bindings) {
			sub.freeVars[fv] = bindings[i]
		}
	}
	x.stack = append(x.stack, callee)
	sub.edges[callee.Blocks[0]] = []Edge{{fr.reach, fr.cur, nil}}
	sub.curInstrPos = fr.curInstrPos
	sub.run()
	x.stack = x.stack[:len(x.stack)-1]
	x.cur.inlined[callee.RelString(nil)]++
	if len(sub.rets) == 0 {
		// never returns normally
		fr.dead = true
		return nil
	}
	var edges []Edge
	for _, r := range sub.rets {
		edges = append(edges, Edge{r.cond, r.st, nil})
	}
	reach, st := sub.merge(edges, callee.Blocks[0])
	// merged results
	var res *Value
	nres := len(sub.rets[0].vals)
	if nres > 0 {
		var comps [][]Term
		for _, r := range sub.rets {
			var cs []Term
			for _, v := range r.vals {
				cs = append(cs, v.C...)
			}
			comps = append(comps, cs)
		}
		out := make([]Term, len(comps[0]))
		for j := range out {
			t := comps[len(comps)-1][j]
			for i := len(comps) - 2; i >= 0; i-- {
				t = Ite(sub.rets[i].cond, comps[i][j], t)
			}
			out[j] = c.Name("ret", t)
		}
		if nres == 1 {
			res = &Value{T: sub.rets[0].vals[0].T, C: out}
			if len(sub.rets) == 1 {
				res.P = sub.rets[0].vals[0].P
			}
		} else {
			res = &Value{T: callee.Signature.Results(), C: out}
		}
	}
	// the caller continues only when the callee returned
	if len(edges) > 1 || st != fr.cur {
		*fr.cur = *st.Clone()
	}
	fr.reach = c.Name("R_after_"+callee.Name(), reach)
	return res
}

// ---------- contracts at call sites

func (fr *Frame) bindNames(fn *ssa.Function, sig *types.Signature, fc *FuncContract, args []*Value, invoke bool) map[string]*Value {
	vars := map[string]*Value{}
	hasRecv := invoke || (sig != nil && sig.Recv() != nil)
	if fn != nil && len(fn.Params) == len(args) {
		for i, p := range fn.Params {
			vars[p.Name()] = args[i]
		}
	} else if sig != nil {
		off := 0
		if hasRecv {
			off = 1
		}
		for i := 0; i < sig.Params().Len() && i+off < len(args); i++ {
			if n := sig.Params().At(i).Name(); n != "" && n != "_" {
				vars[n] = args[i+off]
			}
		}
	}
	if hasRecv && len(args) > 0 {
		if fc.RecvName != "" {
			vars[fc.RecvName] = args[0]
		}
		if _, ok := vars["recv"]; !ok {
			vars["recv"] = args[0]
		}
	}
	// names given in the contract header (externs, interface methods)
	switch {
	case len(fc.Params) == len(args):
		for i, p := range fc.Params {
			vars[p.Name] = args[i]
		}
	case hasRecv && len(fc.Params)+1 == len(args):
		for i, p := range fc.Params {
			vars[p.Name] = args[i+1]
		}
	}
	return vars
}

func bindResults(vars map[string]*Value, sig *types.Signature, fc *FuncContract, e *Engine, res *Value) {
	rs := sig.Results()
	if rs.Len() == 0 || res == nil {
		return
	}
	var parts []*Value
	if rs.Len() == 1 {
		parts = []*Value{res}
	} else {
		off := 0
		for i := 0; i < rs.Len(); i++ {
			n := len(e.layout(rs.At(i).Type()))
			parts = append(parts, e.sub(res, off, n, rs.At(i).Type()))
			off += n
		}
	}
	for i := 0; i < rs.Len(); i++ {
		if n := rs.At(i).Name(); n != "" && n != "_" {
			vars[n] = parts[i]
		}
		if fc != nil && i < len(fc.Results) && fc.Results[i].Name != "" {
			vars[fc.Results[i].Name] = parts[i]
		}
		vars[fmt.Sprintf("result%d", i)] = parts[i]
	}
	if rs.Len() == 1 {
		vars["result"] = parts[0]
	}
	if last := rs.At(rs.Len() - 1); isErrorType(last.Type()) {
		if _, ok := vars["err"]; !ok {
			vars["err"] = parts[rs.Len()-1]
		}
	}
}

func (fr *Frame) applyContract(fc *FuncContract, callee *ssa.Function, args []*Value, rt types.Type) *Value {
	return fr.applyContractSig(fc, callee, callee.Signature, args, rt, false)
}

func (fr *Frame) applyContractSig(fc *FuncContract, callee *ssa.Function, sig *types.Signature, args []*Value, rt types.Type, invoke bool) *Value {
	x := fr.x
	e := x.eng
	c := x.ctx
	st := fr.cur
	vars := fr.bindNames(callee, sig, fc, args, invoke)
	envFn := callee
	if envFn == nil {
		envFn = fr.fn
	}
	pre := st.Clone()
	envPre := &SpecEnv{x: x, vars: vars, st: pre, old: pre, fn: envFn}
	for i, rq := range fc.Requires {
		t, err := envPre.EvalBool(rq.E)
		if err != nil {
			fr.contractError(rq, err)
			continue
		}
		fr.obligation("call", fmt.Sprintf("%s.requires.%s", fc.Key, labelOr(rq.Label, i+1)), fr.reach, t, rq.Text)
		c.Assume(Implies(fr.reach, t))
	}
	if fc.Decreases != nil && callee != nil && x.cur.fc == fc {
		// self-recursion: the measure strictly decreases and is bounded below
		top := fr
		for top.parent != nil {
			top = top.parent
		}
		envTop := &SpecEnv{x: x, vars: top.argVars, st: top.entrySt, old: top.entrySt, fn: top.fn}
		m0, err0 := envTop.EvalInt(fc.Decreases.E)
		m1, err1 := envPre.EvalInt(fc.Decreases.E)
		if err0 == nil && err1 == nil {
			fr.obligation("decreases", "recursion", fr.reach, And(Le(IntLit(0), m0), Lt(m1, m0)), fc.Decreases.Text)
		}
	}
	x.cur.calls[fc.Key]++
	if fc.Trusted {
		c.Trust("trusted contract of " + fc.Key)
	}
	// havoc according to the frame
	fr.callStamp = c.n
	if !fc.Pure {
		na := c.Fresh("alloc", SInt)
		c.Assume(Le(st.alloc, na))
		x.setAlloc(st, na)
		if !fc.HasAsg {
			// unspecified frame: anything reachable may change
			x.havocAll(st)
		} else {
			for _, a := range fc.Assigns {
				fr.havocLocation(envPre, a, fc)
			}
		}
	}
	res := fr.freshResult("r_"+shortName(fc.Key), rt)
	if !fc.Pure && fc.HasAsg {
		// freshly allocated memory reachable from the results
		tmpVars := map[string]*Value{}
		bindResults(tmpVars, sig, fc, e, res)
		fr.freshNames = tmpVars
		fr.freshResultMemory(sig.Results(), pre, res, fc)
	}
	if fc.MayPanic {
		// the call may not return; nothing to add for partial correctness
	}
	before := map[string]bool{}
	for k := range vars {
		before[k] = true
	}
	bindResults(vars, sig, fc, e, res)
	fr.resNames = map[string]bool{}
	for k := range vars {
		if !before[k] {
			fr.resNames[k] = true
		}
	}
	envPost := &SpecEnv{x: x, vars: vars, st: st, old: pre, fn: envFn}
	// string arguments merged from two branches under one condition: state the postcondition
	// per branch (outside the quantifiers) instead of over merged characters
	var splitC Term
	var varsA, varsB map[string]*Value
	{
		ok := true
		for name, v := range vars {
			if v == nil || v.T == nil || !isString(v.T) {
				continue
			}
			var cnd Term
			a := &Value{T: v.T, C: append([]Term(nil), v.C...)}
			b := &Value{T: v.T, C: append([]Term(nil), v.C...)}
			found := false
			for j := range v.C {
				if d, has := x.iteDefs[v.C[j].S]; has {
					if found && d[0].S != cnd.S {
						ok = false
					}
					cnd, found = d[0], true
					a.C[j], b.C[j] = d[1], d[2]
				}
			}
			if !found {
				continue
			}
			if splitC.S != "" && splitC.S != cnd.S {
				ok = false
			}
			if varsA == nil {
				varsA, varsB = map[string]*Value{}, map[string]*Value{}
			}
			splitC = cnd
			varsA[name], varsB[name] = a, b
		}
		if !ok {
			splitC = Term{}
		}
	}
	calleeName := ""
	if callee != nil && callee.Pkg != nil {
		calleeName = callee.Pkg.Pkg.Name() + "." + callee.RelString(callee.Pkg.Pkg)
	}
	for ei, en := range append(append([]Clause(nil), fc.Ensures...), fc.Defines...) {
		if ei < len(fc.Ensures) && calleeName != "" && e.knownFailing[calleeName+"#ensures#"+labelOr(en.Label, ei+1)] {
			// a postcondition recorded as a known finding does not hold: callers must not rely on it
			c.Note(fmt.Sprintf("%s: postcondition %q of %s is a known finding and is not assumed here", fr.fn.Name(), en.Label, fc.Key))
			continue
		}
		var t Term
		var err error
		if splitC.S != "" {
			var ta, tb Term
			ta, err = envPost.with(varsA).EvalAssume(en.E)
			if err == nil {
				tb, err = envPost.with(varsB).EvalAssume(en.E)
			}
			t = Ite(splitC, ta, tb)
		} else {
			t, err = envPost.EvalAssume(en.E)
		}
		if err != nil {
			fr.contractError(en, err)
			continue
		}
		c.Assume(Implies(fr.reach, t))
		fr.recordResultContent(en.E, envPost)
		// a clause "result == E" defines the result: use E itself from here on, so that
		// later terms built from the result are syntactically those of the specification
		if res != nil && len(res.C) == 1 && res.C[0].Sort == SInt && fc.Pure {
			rn := res.C[0].S
			pre1, pre2 := "(= "+rn+" ", " "+rn+")"
			if strings.HasPrefix(t.S, pre1) && strings.HasSuffix(t.S, ")") {
				if e2 := t.S[len(pre1) : len(t.S)-1]; !strings.Contains(e2, rn) && balanced(e2) {
					res.C[0] = c.Name("rdef", Term{S: e2, Sort: SInt})
				}
			} else if strings.HasPrefix(t.S, "(= ") && strings.HasSuffix(t.S, pre2) {
				if e2 := t.S[3 : len(t.S)-len(pre2)]; !strings.Contains(e2, rn) && balanced(e2) {
					res.C[0] = c.Name("rdef", Term{S: e2, Sort: SInt})
				}
			}
		}
	}
	for _, d := range fc.Defines {
		c.Trust("ghost definition / environment assumption (assumed at call sites, not checked in the body) of " + fc.Key + ": " + d.Text)
	}
	return res
}

// recordResultContent: an unconditional conjunct "r === E" about a byte-slice result records E as
// the symbolic content of r, so that later uses render exactly like the specification.
func (fr *Frame) recordResultContent(e Expr, env *SpecEnv) {
	switch n := e.(type) {
	case *EBin:
		if n.Op == "&&" {
			fr.recordResultContent(n.X, env)
			fr.recordResultContent(n.Y, env)
			return
		}
		if n.Op != "===" {
			return
		}
		if sel, ok := n.X.(*ESel); ok {
			// "obj.ghost === E": remember E as the symbolic value of the ghost field
			func() {
				defer func() { recover() }()
				base := env.eval(sel.X)
				hk, rk, ok := env.ghostKey(base, sel.Name)
				if !ok {
					return
				}
				sq := env.toSeq(env.eval(n.Y))
				if fr.cur.gcontent == nil {
					fr.cur.gcontent = map[string]*ghostRec{}
				}
				fr.cur.gcontent[rk] = &ghostRec{heapTerm: fr.x.heapGet(fr.cur, hk).S, seq: sq}
			}()
			return
		}
		id, ok := n.X.(*EIdent)
		if !ok {
			return
		}
		v, ok := env.vars[id.Name]
		if !ok || v == nil || v.T == nil || !isSlice(v.T) || len(fr.x.eng.layout(v.T.Underlying().(*types.Slice).Elem())) != 1 {
			return
		}
		if !fr.resNames[id.Name] {
			return // only results: parameters are inputs
		}
		func() {
			defer func() { recover() }()
			sq := env.toSeq(env.eval(n.Y))
			if fr.cur.content == nil {
				fr.cur.content = map[string]*contentRec{}
			}
			fr.cur.content[v.C[0].S] = &contentRec{off: v.C[1], ln: v.C[2], seq: sq}
		}()
	}
}

func balanced(s string) bool {
	d := 0
	for i := 0; i < len(s); i++ {
		switch s[i] {
		case '(':
			d++
		case ')':
			d--
			if d < 0 {
				return false
			}
		case ' ':
			if d == 0 {
				return false
			}
		}
	}
	return d == 0
}

// havocLocation makes one assignable location arbitrary.

// nestedSel resolves a.b.c where a is a pointer and b, c are (nested) struct-valued fields:
// returns the pointer value, the field index path, and the flattened component range inside the pointee.
func (x *Exec) nestedSel(env *SpecEnv, n *ESel) (base *Value, path []int, off, cnt int, ok bool) {
	inner, isSel := n.X.(*ESel)
	bv := env.eval(n.X)
	if isPointer(bv.T) {
		st, isS := derefT(bv.T).Underlying().(*types.Struct)
		if !isS {
			return nil, nil, 0, 0, false
		}
		for i := 0; i < st.NumFields(); i++ {
			if st.Field(i).Name() == n.Name {
				o, c := x.eng.fieldRange(st, i)
				return bv, []int{i}, o, c, true
			}
		}
		return nil, nil, 0, 0, false
	}
	st, isS := bv.T.Underlying().(*types.Struct)
	if !isSel || !isS {
		return nil, nil, 0, 0, false
	}
	b, pth, o, _, ok2 := x.nestedSel(env, inner)
	if !ok2 {
		return nil, nil, 0, 0, false
	}
	for i := 0; i < st.NumFields(); i++ {
		if st.Field(i).Name() == n.Name {
			o2, c2 := x.eng.fieldRange(st, i)
			return b, append(append([]int(nil), pth...), i), o + o2, c2, true
		}
	}
	return nil, nil, 0, 0, false
}

func (fr *Frame) havocLocation(env *SpecEnv, a Expr, fc *FuncContract) {
	x := fr.x
	defer func() {
		if r := recover(); r != nil {
			if se, ok := r.(specErr); ok {
				x.cur.errors = append(x.cur.errors, fmt.Sprintf("%s: assigns clause: %v", fc.Key, se))
				return
			}
			panic(r)
		}
	}()
	switch n := a.(type) {
	case *ESel:
		base := env.eval(n.X)
		if !isPointer(base.T) {
			// nested struct-valued field of a pointee: p.a.b
			if b, pth, _, _, ok := x.nestedSel(env, n); ok {
				p := *x.ptrOf(b)
				var ft types.Type = derefT(b.T)
				for _, idx := range pth {
					p.Path = append(append([]PathEl(nil), p.Path...), PathEl{Field: idx})
					ft = ft.Underlying().(*types.Struct).Field(idx).Type()
				}
				x.Store(fr.cur, &p, fr.havocValue("asg", ft))
				return
			}
			sfail("assigns %v: base is not a pointer", n.Name)
		}
		p := *x.ptrOf(base)
		st := derefT(base.T).Underlying().(*types.Struct)
		idx := -1
		for i := 0; i < st.NumFields(); i++ {
			if st.Field(i).Name() == n.Name {
				idx = i
			}
		}
		if idx < 0 {
			if off, cnt, _, ok := x.eng.ghostField(base.T, n.Name); ok {
				np := x.normPtr(&p)
				o, _, idx := x.compRange(np)
				if np.Local == nil && np.Global == nil && !np.Elem && len(idx) == 0 {
					for j := o + off; j < o+off+cnt; j++ {
						key, srt := x.eng.heapKey("H", np.RootT, j)
						h := x.heapGet(fr.cur, key)
						nv := x.ctx.Fresh("gasg", ElemSort(srt))
						if x.eng.layout(np.RootT)[j].Kind == "ghostlen" {
							x.ctx.Assume(Le(IntLit(0), nv))
						}
						x.heapSetAt(fr.cur, key, x.ctx.Name("H", Store(h, np.Heap, nv)), np.Heap)
					}
					return
				}
				cur := x.Load(fr.cur, np)
				nv := &Value{T: cur.T, C: append([]Term(nil), cur.C...)}
				for j := off; j < off+cnt; j++ {
					nv.C[j] = x.ctx.Fresh("gasg", cur.C[j].Sort)
					if x.eng.layout(cur.T)[j].Kind == "ghostlen" {
						x.ctx.Assume(Le(IntLit(0), nv.C[j]))
					}
				}
				x.Store(fr.cur, np, nv)
				return
			}
			sfail("assigns: no field %s", n.Name)
		}
		p.Path = append(append([]PathEl(nil), p.Path...), PathEl{Field: idx})
		x.Store(fr.cur, &p, fr.havocValue("asg", st.Field(idx).Type()))
	case *EIdent, *ECall, *EIndex:
		v := env.eval(a)
		fr.havocReachable(v)
	default:
		sfail("unsupported assigns location")
	}
}

// freshResultMemory: memory of freshly allocated results. The row / object directly behind a
// result slice or pointer becomes arbitrary by a store at the result reference (so older
// objects are syntactically untouched); memory reachable through nested pointers or slices
// is arbitrary at all references allocated by the callee (frame axiom for older references).
func (fr *Frame) freshResultMemory(rs *types.Tuple, pre *State, res *Value, fc *FuncContract) {
	x := fr.x
	e := x.eng
	c := x.ctx
	seen := map[string]bool{}
	general := map[string]bool{}
	var walk func(t types.Type, depth int)
	walk = func(t types.Type, depth int) {
		if depth > 3 {
			return
		}
		k := typeKey(t)
		if seen[k] {
			return
		}
		seen[k] = true
		switch u := t.Underlying().(type) {
		case *types.Pointer:
			el := u.Elem()
			if _, isArr := el.Underlying().(*types.Array); isArr && !isGhostType(el) {
				walk(types.NewSlice(el.Underlying().(*types.Array).Elem()), depth)
				return
			}
			for j := range e.layout(el) {
				key, _ := e.heapKey("H", el, j)
				general[key] = true
			}
			if !isGhostType(el) {
				walk(el, depth+1)
			}
		case *types.Slice:
			for j := range e.layout(u.Elem()) {
				key, _ := e.heapKey("M", u.Elem(), j)
				general[key] = true
			}
			walk(u.Elem(), depth+1)
		case *types.Struct:
			for i := 0; i < u.NumFields(); i++ {
				walk(u.Field(i).Type(), depth)
			}
		}
	}
	type direct struct {
		key string
		ref Term
	}
	var directs []direct
	declaredFresh := map[string]bool{} // reference terms of results the contract declares fresh
	for _, en := range fc.Ensures {
		markFresh(en.E, func(name string) {
			if v, ok := fr.freshNames[name]; ok && v != nil && len(v.C) > 0 {
				declaredFresh[v.C[0].S] = true
				c.birth[v.C[0].S] = maxIndex(v.C[0].S) // born now (or nil)
			}
		})
	}
	off := 0
	for i := 0; i < rs.Len(); i++ {
		t := rs.At(i).Type()
		n := len(e.layout(t))
		var ref Term
		if res != nil && off < len(res.C) && declaredFresh[res.C[off].S] {
			ref = res.C[off]
		}
		off += n
		switch u := t.Underlying().(type) {
		case *types.Slice:
			if ref.S != "" {
				for j := range e.layout(u.Elem()) {
					key, _ := e.heapKey("M", u.Elem(), j)
					directs = append(directs, direct{key, ref})
				}
				walk(u.Elem(), 1)
				continue
			}
		case *types.Pointer:
			el := u.Elem()
			if _, isArr := el.Underlying().(*types.Array); !isArr && ref.S != "" {
				for j := range e.layout(el) {
					key, _ := e.heapKey("H", el, j)
					directs = append(directs, direct{key, ref})
				}
				if !isGhostType(el) {
					walk(el, 1)
				}
				continue
			}
		}
		walk(t, 0)
	}
	for _, key := range sortedKeys(general) {
		old := x.heapGet(fr.cur, key)
		nw := c.Fresh("Hc_"+shortKey(key), old.Sort)
		r := Term{S: "r$f", Sort: SInt}
		c.Assume(Forall([]Term{r}, Implies(Lt(r, pre.alloc), Eq(Select(nw, r), Select(old, r))), Select(nw, r)))
		c.Assume(e.rangeAxiom(key, nw))
		c.frameMem[nw.S] = frameRec{old: old.S, stamp: fr.callStamp + 1}
		x.heapSetFresh(fr.cur, key, nw)
	}
	for _, d := range directs {
		if general[d.key] {
			continue
		}
		old := x.heapGet(fr.cur, d.key)
		nv := c.Fresh("fr_"+shortKey(d.key), ElemSort(old.Sort))
		if strings.HasPrefix(d.key, "M:") {
			c.Assume(e.rowRangeAxiom(d.key, nv))
		} else if cp, ok := e.heapComps[d.key]; ok && cp.Kind == "int" && cp.Lo != nil {
			c.Assume(And(Le(BigLit(cp.Lo), nv), Le(nv, BigLit(cp.Hi))))
		}
		// the store is skipped for a nil result (reference 0 has no object)
		nt := c.Name("Hs", Store(old, d.ref, nv))
		x.heapSetFresh(fr.cur, d.key, nt)
		x.invalidateContent(fr.cur, d.ref)
	}
	// results declared fresh (unconditionally, "fresh(x)" as a top-level conjunct) are born now
	for _, en := range fc.Ensures {
		markFresh(en.E, func(name string) {
			if v, ok := fr.freshNames[name]; ok && v != nil && len(v.C) > 0 {
				c.birth[v.C[0].S] = maxIndex(v.C[0].S)
			}
		})
	}
}

func markFresh(e Expr, f func(string)) {
	switch n := e.(type) {
	case *EBin:
		if n.Op == "&&" {
			markFresh(n.X, f)
			markFresh(n.Y, f)
		}
	case *ECall:
		if id, ok := n.Fn.(*EIdent); ok && id.Name == "fresh" && len(n.Args) == 1 {
			if a, ok := n.Args[0].(*EIdent); ok {
				f(a.Name)
			}
		}
	}
}

// lockKeys: heap rows that hold the ghost flag "held" of a mutex (of every struct type registered so far).
func (e *Engine) lockKeys() []string {
	var out []string
	for k, cp := range e.heapComps {
		if cp.Kind == "ghost" && (cp.Path == "held" || strings.HasSuffix(cp.Path, ".held") || cp.Path == "rheld" || strings.HasSuffix(cp.Path, ".rheld")) && e.heapSorts[k] == ArrOf(SBool) {
			out = append(out, k)
		}
	}
	sort.Strings(out)
	return out
}
