package main

// Coded models of library functions that the contract language cannot express.

import (
	"go/types"

	"golang.org/x/tools/go/ssa"
)

type externFn func(fr *Frame, callee *ssa.Function, args []*Value, rt types.Type) (*Value, bool)

var externs = map[string]externFn{}

func typesNewPointer(t types.Type) types.Type { return types.NewPointer(t) }
