package main

// Coded models of library functions that the contract language cannot express.

import (
	"go/token"
	"go/types"

	"golang.org/x/tools/go/ssa"
)

type externFn func(fr *Frame, callee *ssa.Function, args []*Value, rt types.Type) (*Value, bool)

var externs = map[string]externFn{}

func init() {
	externs["io.ReadFull"] = extReadFull
	externs["(*bytes.Buffer).Read"] = nil
	delete(externs, "(*bytes.Buffer).Read")
}

func typesNewPointer(t types.Type) types.Type { return types.NewPointer(t) }

// bufferType finds bytes.Buffer in the loaded program.
func (e *Engine) bufferType() types.Type {
	if e.bufT != nil {
		return e.bufT
	}
	for _, p := range e.prog.AllPackages() {
		if p.Pkg.Path() == "bytes" {
			e.bufT = p.Pkg.Scope().Lookup("Buffer").Type()
		}
	}
	return e.bufT
}

func (e *Engine) readerType() types.Type {
	for _, p := range e.prog.AllPackages() {
		if p.Pkg.Path() == "bytes" {
			return p.Pkg.Scope().Lookup("Reader").Type()
		}
	}
	return nil
}

// readerRef gives the ghost stream object of a reader value: every io.Reader is
// modelled as a stream object with the ghost layout of bytes.Buffer.
func (x *Exec) readerRef(v *Value) (ref Term, isBuf Term) {
	bt := x.eng.bufferType()
	if isIface(v.T) {
		id := x.eng.typeID(types.NewPointer(bt))
		isB := Eq(v.C[0], IntLit(int64(id)))
		if rt := x.eng.readerType(); rt != nil {
			isB = Or(isB, Eq(v.C[0], IntLit(int64(x.eng.typeID(types.NewPointer(rt))))))
		}
		return v.C[1], isB
	}
	return v.C[0], TTrue
}

func (x *Exec) readerSeq(st *State, v *Value) *SeqV {
	bt := x.eng.bufferType()
	if bt == nil {
		sfail("bytes package not loaded")
	}
	if v.T == nil {
		sfail("rd() of a non-program value")
	}
	ref, _ := x.readerRef(v)
	g := x.Load(st, &Ptr{Heap: ref, RootT: bt})
	x.ctx.Assume(And(Le(IntLit(0), g.C[1]), Le(IntLit(0), g.C[2]), Le(g.C[2], BigLit(pow2(40)))))
	return rowSeq(x.ctx.Name("garr", g.C[0]), g.C[1], g.C[2])
}

// io.ReadFull(r, buf): on success exactly len(buf) bytes are moved from the
// stream into buf; for a *bytes.Buffer it fails iff fewer bytes are available.
func extReadFull(fr *Frame, callee *ssa.Function, args []*Value, rt types.Type) (*Value, bool) {
	x := fr.x
	c := x.ctx
	e := x.eng
	st := fr.cur
	bt := e.bufferType()
	if bt == nil {
		return nil, false
	}
	r, buf := args[0], args[1]
	fr.safety("nil", Neq(r.C[0], IntLit(0)), "nil-reader")
	ref, isBuf := x.readerRef(r)
	p := &Ptr{Heap: ref, RootT: bt}
	g := x.Load(st, p)
	arr, off, ln := c.Name("garr", g.C[0]), g.C[1], g.C[2]
	c.Assume(And(Le(IntLit(0), off), Le(IntLit(0), ln), Le(ln, BigLit(pow2(40)))))
	n := buf.C[2]
	other := c.Fresh("readok", SBool)
	ok := c.Name("rfok", And(Ge(ln, n), Or(isBuf, other)))
	// buffer contents
	bytT := buf.T.Underlying().(*types.Slice).Elem()
	key, _ := e.heapKey("M", bytT, 0)
	M := x.heapGet(st, key)
	row := c.Name("rowB", Select(M, buf.C[0]))
	okRow := fr.rangeCopy(row, buf.C[1], arr, off, n)
	badRow := c.Fresh("rfrow", row.Sort)
	c.Assume(e.rowRangeAxiom(key, badRow))
	x.heapSetAt(st, key, c.Name("M", Store(M, buf.C[0], Ite(ok, okRow, badRow))), buf.C[0])
	// stream
	badLen := c.Fresh("rflen", SInt)
	badOff := c.Fresh("rfoff", SInt)
	c.Assume(And(Le(IntLit(0), badLen), Le(IntLit(0), badOff), Implies(isBuf, Eq(badLen, IntLit(0)))))
	x.Store(st, p, &Value{T: bt, C: []Term{arr, c.Name("goff", Ite(ok, Add(off, n), badOff)), c.Name("glen", Ite(ok, Sub(ln, n), badLen))}})
	// results
	nres := c.Fresh("rfn", SInt)
	c.Assume(And(Le(IntLit(0), nres), Le(nres, n), Implies(ok, Eq(nres, n)), Implies(Not(ok), Or(Lt(nres, n), Eq(n, IntLit(0))))))
	errTag := c.Fresh("rferr", SInt)
	errVal := c.Fresh("rferrv", SInt)
	c.Assume(And(Le(IntLit(0), errTag), Le(IntLit(0), errVal), Iff(Eq(errTag, IntLit(0)), ok), Implies(Eq(errTag, IntLit(0)), Eq(errVal, IntLit(0)))))
	x.cur.calls["io.ReadFull"]++
	c.Trust("coded model of io.ReadFull: every io.Reader is a finite stream object; *bytes.Buffer fails iff too few bytes remain")
	return &Value{T: rt, C: []Term{nres, errTag, errVal}}, true
}

var _ = token.ADD
