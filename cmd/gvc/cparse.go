package main

// Contract language: parser for //@ comment lines (Gobra-flavoured).

import (
	"fmt"
	"math/big"
	"os"
	"strconv"
	"strings"
)

// ---------- AST

type Expr interface{}

type (
	EInt   struct{ V *big.Int }
	EBool  struct{ V bool }
	ENil   struct{}
	EStr   struct{ V string }
	EIdent struct{ Name string }
	EUn    struct {
		Op string
		X  Expr
	}
	EBin struct {
		Op   string
		X, Y Expr
	}
	ECond struct{ C, A, B Expr }
	ECall struct {
		Fn   Expr
		Args []Expr
	}
	EIndex struct{ X, I Expr }
	ESlice struct{ X, Lo, Hi Expr }
	ESel   struct {
		X    Expr
		Name string
	}
	EQuant struct {
		Forall bool
		Vars   []string
		Body   Expr
	}
)

type Clause struct {
	Label string
	E     Expr
	Text  string
	Line  int
	File  string
}

type Param struct {
	Name string
	Type string
}

type SpecFunc struct {
	Name    string
	Params  []Param
	Result  string // int, bool, seq
	Body    Expr
	Rec     bool
	Line    int
	File    string
	Opaque  bool
	Trusted bool // declared without body = uninterpreted
}

type Axiom struct {
	Name  string
	E     Expr
	Lemma bool // lemma: proved as an obligation before use
	Text  string
	Line  int
	File  string
	Props []string
}

type FuncContract struct {
	Key        string
	File       string
	Line       int
	Props      []string
	Requires   []Clause
	Ensures    []Clause
	Assigns    []Expr // nil = unspecified (havoc everything reachable)
	HasAsg     bool
	AsgNone    bool
	LoopInv    map[int][]Clause
	LoopDec    map[int]Clause
	Safety     map[string]bool
	HasSafe    bool
	Trusted    bool
	Inline     bool
	Pure       bool
	MayPanic   bool
	NoBody     bool // contract only used at call sites, body not verified (trusted)
	Extern     bool // declared with "extern": key is global (RelString(nil))
	Params     []Param
	Results    []Param
	Uses       []string // lemmas assumed while verifying this function
	TrustFrame bool     // the assigns clause is assumed at call sites but not checked against the body (listed as trusted)
	RecvName   string
	PkgInit    bool
	Reveals    []string // opaque spec functions whose definition this proof needs
	WrapAround bool // int arithmetic wraps (Go semantics) instead of carrying an overflow obligation
	Proves     []Clause // proof hints at every return: proved as an obligation, then assumed for the postconditions
	Defines    []Clause // ghost definitions about fresh results: assumed by callers, not checked in the body
	AllocBound *Clause
	Forbids    []string
	Decreases  *Clause
	Covers     []Clause // vacuity guards: the condition must be satisfiable at some return (reported when it is refuted)
	Implements string // named function type whose "(T).call" contract this function is verified against (and may stand in for)
}

// GuardDecl: lock discipline of a struct field ("guarded T.f by mu": every access needs the object's mutex held by the
// current call, unless the object was allocated in this call; "immutable T.f": written only on objects allocated in this
// call) or of a package variable ("onceguarded v by once": written only inside the function literal handed to once.Do,
// read only after a call of once.Do in the same function).
type GuardDecl struct {
	Type, Field string
	Mutex       string // "" for immutable
	Once        string // for package variables
	Exclusive   bool   // "exclusive T.f by mu": reads, too, need the exclusive hold (a resource used for a whole call)
	Props       []string
	File        string
	Line        int
}

type ContractFile struct {
	Invariants []Clause // package-level invariants over global variables
	Path       string
	Specs      []*SpecFunc
	Axioms     []*Axiom
	Funcs      []*FuncContract
	Ghosts     []GhostField
	Guards     []GuardDecl
}

// GhostField: "ghost field T.name sort" adds a specification-only component to a named struct type.
type GhostField struct {
	Type, Name, Sort string
}

// ---------- lexer

type tok struct {
	k   string // id, int, str, op, eof
	s   string
	pos int
}

func lex(src string) ([]tok, error) {
	var out []tok
	i := 0
	ops3 := []string{"<==>", "==>", "===", "!==", "&^"}
	ops2 := []string{"==", "!=", "<=", ">=", "&&", "||", "<<", ">>", "::"}
	for i < len(src) {
		c := src[i]
		switch {
		case c == ' ' || c == '\t' || c == '\n' || c == '\r':
			i++
		case c == '/' && i+1 < len(src) && src[i+1] == '/':
			for i < len(src) && src[i] != '\n' {
				i++
			}
		case isIdStart(c):
			st := i
			for i < len(src) && (isIdStart(src[i]) || (src[i] >= '0' && src[i] <= '9')) {
				i++
			}
			out = append(out, tok{"id", src[st:i], st})
		case c >= '0' && c <= '9':
			st := i
			if c == '0' && i+1 < len(src) && (src[i+1] == 'x' || src[i+1] == 'X') {
				i += 2
				for i < len(src) && strings.ContainsRune("0123456789abcdefABCDEF_", rune(src[i])) {
					i++
				}
			} else {
				for i < len(src) && ((src[i] >= '0' && src[i] <= '9') || src[i] == '_') {
					i++
				}
			}
			out = append(out, tok{"int", strings.ReplaceAll(src[st:i], "_", ""), st})
		case c == '"':
			st := i
			i++
			for i < len(src) && src[i] != '"' {
				if src[i] == '\\' {
					i++
				}
				i++
			}
			i++
			s, err := strconv.Unquote(src[st:i])
			if err != nil {
				return nil, fmt.Errorf("bad string literal %s", src[st:i])
			}
			out = append(out, tok{"str", s, st})
		case c == '\'':
			st := i
			i++
			for i < len(src) && src[i] != '\'' {
				if src[i] == '\\' {
					i++
				}
				i++
			}
			i++
			r, _, _, err := strconv.UnquoteChar(src[st+1:i-1], '\'')
			if err != nil {
				return nil, fmt.Errorf("bad char literal %s", src[st:i])
			}
			out = append(out, tok{"int", strconv.Itoa(int(r)), st})
		default:
			matched := false
			for _, o := range ops3 {
				if strings.HasPrefix(src[i:], o) {
					out = append(out, tok{"op", o, i})
					i += len(o)
					matched = true
					break
				}
			}
			if matched {
				continue
			}
			for _, o := range ops2 {
				if strings.HasPrefix(src[i:], o) {
					out = append(out, tok{"op", o, i})
					i += len(o)
					matched = true
					break
				}
			}
			if matched {
				continue
			}
			out = append(out, tok{"op", string(c), i})
			i++
		}
	}
	out = append(out, tok{"eof", "", len(src)})
	return out, nil
}

func isIdStart(c byte) bool {
	return c == '_' || (c >= 'a' && c <= 'z') || (c >= 'A' && c <= 'Z') || c == '$'
}

// ---------- expression parser (precedence climbing)

type parser struct {
	toks []tok
	p    int
	src  string
}

func (p *parser) peek() tok { return p.toks[p.p] }
func (p *parser) next() tok { t := p.toks[p.p]; p.p++; return t }
func (p *parser) isOp(s string) bool {
	t := p.peek()
	return t.k == "op" && t.s == s
}
func (p *parser) accept(s string) bool {
	if p.isOp(s) {
		p.p++
		return true
	}
	return false
}
func (p *parser) expect(s string) error {
	if !p.accept(s) {
		return fmt.Errorf("expected %q at %q", s, p.rest())
	}
	return nil
}
func (p *parser) rest() string {
	t := p.peek()
	r := p.src[t.pos:]
	if len(r) > 40 {
		r = r[:40]
	}
	return r
}

func ParseExpr(src string) (Expr, error) {
	toks, err := lex(src)
	if err != nil {
		return nil, err
	}
	p := &parser{toks: toks, src: src}
	e, err := p.parseExpr()
	if err != nil {
		return nil, err
	}
	if p.peek().k != "eof" {
		return nil, fmt.Errorf("trailing input at %q", p.rest())
	}
	return e, nil
}

func (p *parser) parseExpr() (Expr, error) { return p.parseCond() }

// cond: iff ('?' expr ':' cond)?
func (p *parser) parseCond() (Expr, error) {
	c, err := p.parseIff()
	if err != nil {
		return nil, err
	}
	if p.accept("?") {
		a, err := p.parseExpr()
		if err != nil {
			return nil, err
		}
		if err := p.expect(":"); err != nil {
			return nil, err
		}
		b, err := p.parseCond()
		if err != nil {
			return nil, err
		}
		return &ECond{c, a, b}, nil
	}
	return c, nil
}

func (p *parser) parseIff() (Expr, error) {
	x, err := p.parseImp()
	if err != nil {
		return nil, err
	}
	for p.accept("<==>") {
		y, err := p.parseImp()
		if err != nil {
			return nil, err
		}
		x = &EBin{"<==>", x, y}
	}
	return x, nil
}

func (p *parser) parseImp() (Expr, error) {
	x, err := p.parseOr()
	if err != nil {
		return nil, err
	}
	if p.accept("==>") {
		y, err := p.parseImp() // right assoc
		if err != nil {
			return nil, err
		}
		return &EBin{"==>", x, y}, nil
	}
	return x, nil
}

func (p *parser) parseOr() (Expr, error) {
	x, err := p.parseAnd()
	if err != nil {
		return nil, err
	}
	for p.accept("||") {
		y, err := p.parseAnd()
		if err != nil {
			return nil, err
		}
		x = &EBin{"||", x, y}
	}
	return x, nil
}

func (p *parser) parseAnd() (Expr, error) {
	x, err := p.parseCmp()
	if err != nil {
		return nil, err
	}
	for p.accept("&&") {
		y, err := p.parseCmp()
		if err != nil {
			return nil, err
		}
		x = &EBin{"&&", x, y}
	}
	return x, nil
}

var cmpOps = map[string]bool{"==": true, "!=": true, "<": true, "<=": true, ">": true, ">=": true, "===": true, "!==": true}

func (p *parser) parseCmp() (Expr, error) {
	x, err := p.parseAdd()
	if err != nil {
		return nil, err
	}
	var res Expr
	for {
		t := p.peek()
		if t.k != "op" || !cmpOps[t.s] {
			break
		}
		p.next()
		y, err := p.parseAdd()
		if err != nil {
			return nil, err
		}
		c := &EBin{t.s, x, y}
		if res == nil {
			res = c
		} else {
			res = &EBin{"&&", res, c}
		}
		x = y // chained comparison a <= b < c
	}
	if res == nil {
		return x, nil
	}
	return res, nil
}

func (p *parser) parseAdd() (Expr, error) {
	x, err := p.parseMul()
	if err != nil {
		return nil, err
	}
	for {
		t := p.peek()
		if t.k == "op" && (t.s == "+" || t.s == "-" || t.s == "|" || t.s == "^") {
			p.next()
			y, err := p.parseMul()
			if err != nil {
				return nil, err
			}
			x = &EBin{t.s, x, y}
			continue
		}
		break
	}
	return x, nil
}

func (p *parser) parseMul() (Expr, error) {
	x, err := p.parseUnary()
	if err != nil {
		return nil, err
	}
	for {
		t := p.peek()
		if t.k == "op" && (t.s == "*" || t.s == "/" || t.s == "%" || t.s == "&" || t.s == "<<" || t.s == ">>" || t.s == "&^") {
			p.next()
			y, err := p.parseUnary()
			if err != nil {
				return nil, err
			}
			x = &EBin{t.s, x, y}
			continue
		}
		break
	}
	return x, nil
}

func (p *parser) parseUnary() (Expr, error) {
	if p.accept("!") {
		x, err := p.parseUnary()
		if err != nil {
			return nil, err
		}
		return &EUn{"!", x}, nil
	}
	if p.accept("-") {
		x, err := p.parseUnary()
		if err != nil {
			return nil, err
		}
		return &EUn{"-", x}, nil
	}
	if p.accept("*") { // explicit dereference
		x, err := p.parseUnary()
		if err != nil {
			return nil, err
		}
		return &EUn{"*", x}, nil
	}
	return p.parsePostfix()
}

func (p *parser) parsePostfix() (Expr, error) {
	x, err := p.parsePrimary()
	if err != nil {
		return nil, err
	}
	for {
		switch {
		case p.accept("."):
			t := p.next()
			if t.k != "id" {
				return nil, fmt.Errorf("expected field name after '.' at %q", p.rest())
			}
			x = &ESel{x, t.s}
		case p.accept("("):
			var args []Expr
			for !p.isOp(")") {
				a, err := p.parseExpr()
				if err != nil {
					return nil, err
				}
				args = append(args, a)
				if !p.accept(",") {
					break
				}
			}
			if err := p.expect(")"); err != nil {
				return nil, err
			}
			x = &ECall{x, args}
		case p.accept("["):
			var lo, hi Expr
			if !p.isOp(":") {
				lo, err = p.parseExpr()
				if err != nil {
					return nil, err
				}
			}
			if p.accept(":") {
				if !p.isOp("]") {
					hi, err = p.parseExpr()
					if err != nil {
						return nil, err
					}
				}
				if err := p.expect("]"); err != nil {
					return nil, err
				}
				x = &ESlice{x, lo, hi}
			} else {
				if err := p.expect("]"); err != nil {
					return nil, err
				}
				x = &EIndex{x, lo}
			}
		default:
			return x, nil
		}
	}
}

func (p *parser) parsePrimary() (Expr, error) {
	t := p.next()
	switch t.k {
	case "int":
		v, ok := new(big.Int).SetString(t.s, 0)
		if !ok {
			return nil, fmt.Errorf("bad int %s", t.s)
		}
		return &EInt{v}, nil
	case "str":
		return &EStr{t.s}, nil
	case "id":
		switch t.s {
		case "true":
			return &EBool{true}, nil
		case "false":
			return &EBool{false}, nil
		case "nil":
			return &ENil{}, nil
		case "forall", "exists":
			var vars []string
			for {
				v := p.next()
				if v.k != "id" {
					return nil, fmt.Errorf("expected bound variable at %q", p.rest())
				}
				if p.peek().k == "id" { // typed binder: "s seq"
					vars = append(vars, v.s+":"+p.next().s)
				} else {
					vars = append(vars, v.s)
				}
				if !p.accept(",") {
					break
				}
			}
			if err := p.expect("::"); err != nil {
				return nil, err
			}
			body, err := p.parseExpr()
			if err != nil {
				return nil, err
			}
			return &EQuant{t.s == "forall", vars, body}, nil
		}
		return &EIdent{t.s}, nil
	case "op":
		if t.s == "(" {
			e, err := p.parseExpr()
			if err != nil {
				return nil, err
			}
			if err := p.expect(")"); err != nil {
				return nil, err
			}
			return e, nil
		}
	}
	return nil, fmt.Errorf("unexpected token %q at %q", t.s, p.src[min(t.pos, len(p.src)):])
}

// ---------- file-level parser

var clauseKW = map[string]bool{
	"func": true, "spec": true, "uf": true, "ghost": true, "axiom": true, "lemma": true, "pred": true,
	"requires": true, "ensures": true, "assigns": true, "loop": true, "safety": true,
	"props": true, "trusted": true, "inline": true, "pure": true, "maypanic": true, "nobody": true,
	"extern": true, "opaque": true, "uses": true, "allocbound": true, "forbids": true, "decreases": true, "invariant": true, "defines": true, "assumes": true, "proves": true, "wraparound": true, "reveals": true, "trustedframe": true,
	"covers": true, "guarded": true, "immutable": true, "implements": true, "onceguarded": true, "exclusive": true,
}

type rawClause struct {
	kw   string
	text string
	line int
}

func ParseContractFile(path string) (*ContractFile, error) {
	data, err := os.ReadFile(path)
	if err != nil {
		return nil, err
	}
	cf := &ContractFile{Path: path}
	var raws []rawClause
	for i, line := range strings.Split(string(data), "\n") {
		tl := strings.TrimSpace(line)
		if !strings.HasPrefix(tl, "//@") {
			continue
		}
		body := strings.TrimSpace(tl[3:])
		if body == "" {
			continue
		}
		// strip trailing "// comment" outside strings
		if j := indexComment(body); j >= 0 {
			body = strings.TrimSpace(body[:j])
			if body == "" {
				continue
			}
		}
		first := body
		if j := strings.IndexAny(body, " \t("); j >= 0 {
			first = body[:j]
		}
		if clauseKW[first] {
			raws = append(raws, rawClause{first, strings.TrimSpace(body[len(first):]), i + 1})
		} else {
			if len(raws) == 0 {
				return nil, fmt.Errorf("%s:%d: continuation without clause", path, i+1)
			}
			raws[len(raws)-1].text += " " + body
		}
	}
	var cur *FuncContract
	var curAx *Axiom
	for _, rc := range raws {
		fail := func(err error) error { return fmt.Errorf("%s:%d: %s %s: %v", path, rc.line, rc.kw, rc.text, err) }
		switch rc.kw {
		case "func", "extern":
			fc, err := parseFuncHeader(rc.text)
			if err != nil {
				return nil, fail(err)
			}
			fc.File, fc.Line = path, rc.line
			fc.LoopInv = map[int][]Clause{}
			fc.LoopDec = map[int]Clause{}
			fc.Safety = map[string]bool{}
			if rc.kw == "extern" {
				fc.Trusted = true
				fc.NoBody = true
				fc.Extern = true
			}
			cf.Funcs = append(cf.Funcs, fc)
			cur = fc
		case "ghost":
			f := strings.Fields(rc.text)
			if len(f) != 3 || f[0] != "field" || !strings.Contains(f[1], ".") || sortOfSpecType(f[2]) == nil {
				return nil, fail(fmt.Errorf("expected: ghost field Type.name int|bool|seq"))
			}
			j := strings.IndexByte(f[1], '.')
			cf.Ghosts = append(cf.Ghosts, GhostField{f[1][:j], f[1][j+1:], f[2]})
			cur = nil
		case "guarded", "immutable", "onceguarded", "exclusive":
			// guarded T.f, T.g by mu for C20 | immutable T.f, T.g for C20 | onceguarded v, w by once for C20
			text := rc.text
			var props []string
			if j := strings.Index(text, " for "); j >= 0 {
				props = strings.Fields(text[j+5:])
				text = text[:j]
			}
			by := ""
			if j := strings.Index(text, " by "); j >= 0 {
				by = strings.TrimSpace(text[j+4:])
				text = text[:j]
			}
			if (rc.kw != "immutable") != (by != "") || len(props) == 0 {
				return nil, fail(fmt.Errorf("expected: guarded T.f[, T.g] by mu for Cxx | immutable T.f[, ...] for Cxx | onceguarded v[, w] by once for Cxx"))
			}
			for _, it := range strings.Split(text, ",") {
				it = strings.TrimSpace(it)
				gd := GuardDecl{Props: props, File: path, Line: rc.line}
				if rc.kw == "onceguarded" {
					gd.Field, gd.Once = it, by
				} else {
					j := strings.IndexByte(it, '.')
					if j <= 0 {
						return nil, fail(fmt.Errorf("expected Type.field, got %q", it))
					}
					gd.Type, gd.Field, gd.Mutex = it[:j], it[j+1:], by
					gd.Exclusive = rc.kw == "exclusive"
				}
				cf.Guards = append(cf.Guards, gd)
			}
			cur = nil
		case "spec", "pred", "uf":
			sf, err := parseSpecFunc(rc.kw, rc.text)
			if err != nil {
				return nil, fail(err)
			}
			sf.File, sf.Line = path, rc.line
			cf.Specs = append(cf.Specs, sf)
			cur = nil
		case "invariant":
			label, text := splitLabel(rc.text)
			e, err := ParseExpr(text)
			if err != nil {
				return nil, fail(err)
			}
			cf.Invariants = append(cf.Invariants, Clause{Label: label, E: e, Text: text, Line: rc.line, File: path})
			cur = nil
		case "opaque":
			if len(cf.Specs) == 0 {
				return nil, fail(fmt.Errorf("opaque without spec func"))
			}
			cf.Specs[len(cf.Specs)-1].Opaque = true
		case "axiom", "lemma":
			name, text := splitLabel(rc.text)
			if name == "" {
				if j := strings.Index(rc.text, ":"); j > 0 && !strings.ContainsAny(rc.text[:j], " \t(") {
					name, text = rc.text[:j], strings.TrimSpace(rc.text[j+1:])
				}
			}
			e, err := ParseExpr(text)
			if err != nil {
				return nil, fail(err)
			}
			curAx = &Axiom{Name: name, E: e, Lemma: rc.kw == "lemma", Text: text, Line: rc.line, File: path}
			cf.Axioms = append(cf.Axioms, curAx)
			cur = nil
		default:
			if cur == nil && curAx != nil && rc.kw == "props" {
				curAx.Props = append(curAx.Props, strings.Fields(rc.text)...)
				continue
			}
			if cur == nil {
				return nil, fail(fmt.Errorf("clause outside func"))
			}
			switch rc.kw {
			case "props":
				cur.Props = append(cur.Props, strings.Fields(rc.text)...)
			case "trustedframe":
				cur.TrustFrame = true
			case "implements":
				cur.Implements = strings.TrimSpace(rc.text)
			case "uses":
				cur.Uses = append(cur.Uses, strings.Fields(rc.text)...)
			case "reveals":
				cur.Reveals = append(cur.Reveals, strings.Fields(rc.text)...)
			case "forbids":
				cur.Forbids = append(cur.Forbids, strings.Fields(rc.text)...)
			case "allocbound", "decreases":
				e, err := ParseExpr(rc.text)
				if err != nil {
					return nil, fail(err)
				}
				cl := &Clause{E: e, Text: rc.text, Line: rc.line, File: path}
				if rc.kw == "allocbound" {
					cur.AllocBound = cl
				} else {
					cur.Decreases = cl
				}
			case "covers":
				label, text := splitLabel(rc.text)
				e, err := ParseExpr(text)
				if err != nil {
					return nil, fail(err)
				}
				cur.Covers = append(cur.Covers, Clause{Label: label, E: e, Text: text, Line: rc.line, File: path})
			case "requires", "ensures", "defines", "assumes", "proves":
				label, text := splitLabel(rc.text)
				e, err := ParseExpr(text)
				if err != nil {
					return nil, fail(err)
				}
				cl := Clause{Label: label, E: e, Text: text, Line: rc.line, File: path}
				if rc.kw == "requires" {
					cur.Requires = append(cur.Requires, cl)
				} else if rc.kw == "defines" || rc.kw == "assumes" {
					cur.Defines = append(cur.Defines, cl)
				} else if rc.kw == "proves" {
					cur.Proves = append(cur.Proves, cl)
				} else {
					cur.Ensures = append(cur.Ensures, cl)
				}
			case "assigns":
				cur.HasAsg = true
				if strings.TrimSpace(rc.text) == "nothing" {
					cur.AsgNone = true
				} else {
					for _, part := range splitTop(rc.text, ',') {
						e, err := ParseExpr(part)
						if err != nil {
							return nil, fail(err)
						}
						cur.Assigns = append(cur.Assigns, e)
					}
				}
			case "loop":
				f := strings.Fields(rc.text)
				if len(f) < 3 {
					return nil, fail(fmt.Errorf("loop N invariant|decreases expr"))
				}
				n, err := strconv.Atoi(f[0])
				if err != nil {
					return nil, fail(err)
				}
				rest := strings.TrimSpace(strings.TrimPrefix(strings.TrimSpace(strings.TrimPrefix(rc.text, f[0])), f[1]))
				label, text := splitLabel(rest)
				e, err := ParseExpr(text)
				if err != nil {
					return nil, fail(err)
				}
				cl := Clause{Label: label, E: e, Text: text, Line: rc.line, File: path}
				switch f[1] {
				case "invariant":
					cur.LoopInv[n] = append(cur.LoopInv[n], cl)
				case "decreases":
					cur.LoopDec[n] = cl
				default:
					return nil, fail(fmt.Errorf("unknown loop clause %s", f[1]))
				}
			case "safety":
				cur.HasSafe = true
				for _, k := range strings.Fields(rc.text) {
					cur.Safety[k] = true
				}
			case "trusted":
				cur.Trusted = true
				cur.NoBody = true
			case "nobody":
				cur.NoBody = true
			case "inline":
				cur.Inline = true
			case "pure":
				cur.Pure = true
				cur.HasAsg = true
				cur.AsgNone = true
			case "maypanic":
				cur.MayPanic = true
			case "wraparound":
				cur.WrapAround = true
			}
		}
	}
	return cf, nil
}

func indexComment(s string) int {
	inStr := false
	for i := 0; i+1 < len(s); i++ {
		if s[i] == '"' {
			inStr = !inStr
		}
		if !inStr && s[i] == '/' && s[i+1] == '/' {
			return i
		}
	}
	return -1
}

// splitLabel recognises `"label": expr`.
func splitLabel(text string) (string, string) {
	t := strings.TrimSpace(text)
	if strings.HasPrefix(t, "\"") {
		if j := strings.Index(t[1:], "\""); j >= 0 {
			rest := strings.TrimSpace(t[j+2:])
			if strings.HasPrefix(rest, ":") {
				return t[1 : j+1], strings.TrimSpace(rest[1:])
			}
		}
	}
	return "", t
}

func splitTop(s string, sep byte) []string {
	var out []string
	depth := 0
	st := 0
	for i := 0; i < len(s); i++ {
		switch s[i] {
		case '(', '[', '{':
			depth++
		case ')', ']', '}':
			depth--
		default:
			if s[i] == sep && depth == 0 {
				out = append(out, strings.TrimSpace(s[st:i]))
				st = i + 1
			}
		}
	}
	if strings.TrimSpace(s[st:]) != "" {
		out = append(out, strings.TrimSpace(s[st:]))
	}
	return out
}

// parseFuncHeader: "(apdu *CApdu) EncodeLc" | "NewCApdu" | "bytes.Equal(a, b []byte) (result bool)"
// | "(b *bytes.Buffer) Len() (n int)"
func parseFuncHeader(text string) (*FuncContract, error) {
	t := strings.TrimSpace(text)
	fc := &FuncContract{}
	recv := ""
	if strings.HasPrefix(t, "(") {
		j := strings.Index(t, ")")
		if j < 0 {
			return nil, fmt.Errorf("bad receiver")
		}
		r := strings.Fields(t[1:j])
		switch len(r) {
		case 1:
			recv = r[0]
		case 2:
			recv = r[1]
			fc.RecvName = r[0]
		default:
			return nil, fmt.Errorf("bad receiver")
		}
		t = strings.TrimPrefix(strings.TrimSpace(t[j+1:]), ".")
	}
	name := t
	rest := ""
	if j := strings.Index(t, "("); j >= 0 {
		name = strings.TrimSpace(t[:j])
		rest = t[j:]
	}
	if name == "" {
		return nil, fmt.Errorf("missing function name")
	}
	if recv != "" {
		fc.Key = "(" + recv + ")." + name
	} else {
		fc.Key = name
	}
	if rest != "" {
		// params
		end := matchParen(rest, 0)
		if end < 0 {
			return nil, fmt.Errorf("unbalanced params")
		}
		ps, err := parseParams(rest[1:end])
		if err != nil {
			return nil, err
		}
		fc.Params = append(fc.Params, ps...)
		rs := strings.TrimSpace(rest[end+1:])
		if strings.HasPrefix(rs, "(") {
			e2 := matchParen(rs, 0)
			if e2 < 0 {
				return nil, fmt.Errorf("unbalanced results")
			}
			res, err := parseParams(rs[1:e2])
			if err != nil {
				return nil, err
			}
			fc.Results = res
		}
	}
	return fc, nil
}

func matchParen(s string, i int) int {
	depth := 0
	for j := i; j < len(s); j++ {
		switch s[j] {
		case '(':
			depth++
		case ')':
			depth--
			if depth == 0 {
				return j
			}
		}
	}
	return -1
}

func parseParams(s string) ([]Param, error) {
	var out []Param
	parts := splitTop(s, ',')
	// Go style: names sharing a type: "a, b []byte"
	var pending []string
	for _, p := range parts {
		f := strings.Fields(p)
		switch len(f) {
		case 0:
		case 1:
			pending = append(pending, f[0])
		default:
			typ := strings.Join(f[1:], " ")
			for _, n := range pending {
				out = append(out, Param{n, typ})
			}
			pending = nil
			out = append(out, Param{f[0], typ})
		}
	}
	for _, n := range pending {
		out = append(out, Param{n, ""})
	}
	return out, nil
}

// parseSpecFunc: "func name(p type, ...) type { expr }"  or for uf: "name(type, ...) type"
func parseSpecFunc(kw, text string) (*SpecFunc, error) {
	t := strings.TrimSpace(text)
	if kw == "spec" {
		if !strings.HasPrefix(t, "func") {
			return nil, fmt.Errorf("expected 'spec func'")
		}
		t = strings.TrimSpace(t[4:])
	}
	j := strings.Index(t, "(")
	if j < 0 {
		return nil, fmt.Errorf("expected (")
	}
	sf := &SpecFunc{Name: strings.TrimSpace(t[:j])}
	end := matchParen(t, j)
	if end < 0 {
		return nil, fmt.Errorf("unbalanced")
	}
	if kw == "uf" {
		for i, ty := range splitTop(t[j+1:end], ',') {
			f := strings.Fields(ty)
			if len(f) == 2 {
				sf.Params = append(sf.Params, Param{f[0], f[1]})
			} else {
				sf.Params = append(sf.Params, Param{fmt.Sprintf("a%d", i), ty})
			}
		}
	} else {
		ps, err := parseParams(t[j+1 : end])
		if err != nil {
			return nil, err
		}
		sf.Params = ps
	}
	rest := strings.TrimSpace(t[end+1:])
	if kw == "pred" {
		sf.Result = "bool"
	}
	if b := strings.Index(rest, "{"); b >= 0 {
		if kw != "pred" {
			sf.Result = strings.TrimSpace(rest[:b])
		}
		body := strings.TrimSpace(rest[b+1:])
		if !strings.HasSuffix(body, "}") {
			return nil, fmt.Errorf("missing closing brace")
		}
		body = strings.TrimSpace(body[:len(body)-1])
		e, err := ParseExpr(body)
		if err != nil {
			return nil, err
		}
		sf.Body = e
		sf.Rec = mentionsCall(e, sf.Name)
	} else {
		sf.Result = rest
		sf.Trusted = true
	}
	if sf.Result == "" {
		return nil, fmt.Errorf("missing result type")
	}
	return sf, nil
}

func mentionsCall(e Expr, name string) bool {
	found := false
	walkExpr(e, func(x Expr) {
		if c, ok := x.(*ECall); ok {
			if id, ok := c.Fn.(*EIdent); ok && id.Name == name {
				found = true
			}
		}
	})
	return found
}

func walkExpr(e Expr, f func(Expr)) {
	if e == nil {
		return
	}
	f(e)
	switch x := e.(type) {
	case *EUn:
		walkExpr(x.X, f)
	case *EBin:
		walkExpr(x.X, f)
		walkExpr(x.Y, f)
	case *ECond:
		walkExpr(x.C, f)
		walkExpr(x.A, f)
		walkExpr(x.B, f)
	case *ECall:
		walkExpr(x.Fn, f)
		for _, a := range x.Args {
			walkExpr(a, f)
		}
	case *EIndex:
		walkExpr(x.X, f)
		walkExpr(x.I, f)
	case *ESlice:
		walkExpr(x.X, f)
		walkExpr(x.Lo, f)
		walkExpr(x.Hi, f)
	case *ESel:
		walkExpr(x.X, f)
	case *EQuant:
		walkExpr(x.Body, f)
	}
}
