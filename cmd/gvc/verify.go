package main

// Top-level verification of one function against its contract.

import (
	"fmt"
	"go/types"
	"sort"
	"strings"
	"time"

	"golang.org/x/tools/go/ssa"
)

type checkEnv struct {
	fnName      string
	fc          *FuncContract
	props       []string
	safety      map[string]bool
	mayPanic    bool
	inputs      []ModelVar
	errors      []string
	names       map[string]int
	trivial     int
	allocBudget func(fr *Frame) Term
	havocked    map[string]int
	inlined     map[string]int
	calls       map[string]int
	outVals     []*Value
	outRow      []Term
	inSpecs     []*InSpec
}

type FuncReport struct {
	InSpecs     []*InSpec
	Name        string
	Key         string
	Contract    *FuncContract
	Fn          *ssa.Function
	Obls        []*Obligation
	Errors      []string
	Notes       []string
	Trusts      []string
	Unsupported string
	Trivial     int
	Havocked    map[string]int
	Inlined     map[string]int
	Calls       map[string]int
	GenMs       int64
	Params      []paramInfo
}

type paramInfo struct {
	Name string
	V    *Value
}

func newCheckEnv(name string, fc *FuncContract) *checkEnv {
	ce := &checkEnv{fnName: name, fc: fc, names: map[string]int{}, safety: map[string]bool{}, havocked: map[string]int{}, inlined: map[string]int{}, calls: map[string]int{}}
	if fc != nil {
		ce.props = fc.Props
		ce.mayPanic = fc.MayPanic
		for k, v := range fc.Safety {
			ce.safety[k] = v
		}
		if fc.Safety["none"] {
			ce.safety = map[string]bool{}
		}
	}
	return ce
}

func (e *Engine) newExec(ce *checkEnv) (x *Exec) {
	defer func() { shareCtx = x.ctx }()
	x = &Exec{eng: e, ctx: NewCtx(), cur: ce, closures: map[*ssa.MakeClosure]bool{}, matSeq: map[string]*SeqV{}, ufApps: map[string][][]Term{}, iteDefs: map[string][3]Term{}}
	return x
}

// assumeAxioms asserts axioms (trusted) and lemmas (proved separately).
func (x *Exec) assumeAxioms(upTo *Axiom) {
	for _, ax := range x.eng.axioms {
		if ax == upTo {
			break
		}
		if ax.Lemma && upTo == nil {
			used := false
			if x.cur.fc != nil {
				for _, u := range x.cur.fc.Uses {
					if u == ax.Name {
						used = true
					}
				}
			}
			if !used {
				continue
			}
		}
		// axioms about uninterpreted spec functions are added when such a function is first used
		if ufs := x.eng.axiomUFs(ax); len(ufs) > 0 && upTo == nil {
			x.pendingAx = append(x.pendingAx, ax)
			continue
		}
		x.assumeAxiom(ax)
	}
}

func (x *Exec) assumeAxiom(ax *Axiom) {
	env := &SpecEnv{x: x, vars: map[string]*Value{}}
	t, err := env.EvalBool(ax.E)
	if err != nil {
		x.cur.errors = append(x.cur.errors, fmt.Sprintf("%s:%d: axiom %s: %v", ax.File, ax.Line, ax.Name, err))
		return
	}
	if !ax.Lemma {
		x.ctx.Trust("axiom " + ax.Name + ": " + ax.Text)
	}
	x.ctx.Assume(t)
}

// axiomUFs lists the uninterpreted spec functions an axiom talks about.
func (e *Engine) axiomUFs(ax *Axiom) []string {
	var out []string
	walkExpr(ax.E, func(n Expr) {
		if c, ok := n.(*ECall); ok {
			if id, ok := c.Fn.(*EIdent); ok {
				if sf, ok := e.specs[id.Name]; ok && sf.Body == nil {
					out = append(out, id.Name)
				}
			}
		}
	})
	return out
}

// releaseAxioms assumes pending axioms all of whose uninterpreted functions are now declared.
func (x *Exec) releaseAxioms() {
	if x.releasing {
		return
	}
	x.releasing = true
	defer func() { x.releasing = false }()
	for progress := true; progress; {
		progress = x.releaseRound()
	}
}

func (x *Exec) releaseRound() bool {
	var rest []*Axiom
	released := false
	for _, ax := range x.pendingAx {
		// an axiom is about its first uninterpreted function (in reading order): it is assumed as soon as that
		// function occurs; the other functions it relates it to are declared on demand
		ready := true
		if ufs := x.eng.axiomUFs(ax); len(ufs) > 0 {
			if _, ok := x.ctx.named["spec|"+ufs[0]]; !ok {
				ready = false
			}
		}
		if ready {
			x.assumeAxiom(ax)
			released = true
		} else {
			rest = append(rest, ax)
		}
	}
	x.pendingAx = rest
	return released
}

func (e *Engine) verifyFunc(fn *ssa.Function, fc *FuncContract) (rep *FuncReport) {
	t0 := time.Now()
	pkgName := ""
	if fn.Pkg != nil {
		pkgName = fn.Pkg.Pkg.Name() + "."
	}
	name := pkgName + fn.RelString(fn.Pkg.Pkg)
	ce := newCheckEnv(name, fc)
	x := e.newExec(ce)
	rep = &FuncReport{Name: name, Key: fc.Key, Contract: fc, Fn: fn}
	defer func() {
		if r := recover(); r != nil {
			if u, ok := r.(unsupported); ok {
				rep.Unsupported = u.msg
			} else if se, ok := r.(specErr); ok {
				rep.Errors = append(rep.Errors, se.msg)
			} else {
				panic(r)
			}
		}
		rep.Obls = x.ctx.obls
		rep.Errors = append(rep.Errors, ce.errors...)
		rep.Notes = x.ctx.notes
		for k := range x.ctx.assumed {
			rep.Trusts = append(rep.Trusts, k)
		}
		sort.Strings(rep.Trusts)
		rep.Trivial = ce.trivial
		rep.Havocked, rep.Inlined, rep.Calls = ce.havocked, ce.inlined, ce.calls
		rep.InSpecs = ce.inSpecs
		rep.GenMs = time.Since(t0).Milliseconds()
	}()
	if len(fn.Blocks) == 0 {
		rep.Unsupported = "function has no body"
		return
	}
	c := x.ctx
	x.assumeAxioms(nil)
	st := &State{heap: map[string]Term{}, base: map[string]Term{}, locals: map[ssa.Value]*Value{}}
	st.alloc = c.FreshGlobal("alloc0", SInt)
	c.Assume(Le(IntLit(1), st.alloc))
	x.entryAlloc = st.alloc
	fr := x.newFrame(fn, nil, fc)
	fr.argVars = map[string]*Value{}
	for _, p := range fn.Params {
		v := e.freshValue(c, "p_"+p.Name(), p.Type())
		c.Assume(e.typeInv(v, st.alloc))
		fr.vals[p] = v
		fr.argVars[p.Name()] = v
		fr.args = append(fr.args, v)
		rep.Params = append(rep.Params, paramInfo{p.Name(), v})
	}
	// names given in the contract header (needed for parameters the code calls "_")
	if off := len(fn.Params) - len(fc.Params); len(fc.Params) > 0 && (off == 0 || (off == 1 && fn.Signature.Recv() != nil)) {
		for i, hp := range fc.Params {
			if hp.Name != "" && hp.Name != "_" {
				if _, taken := fr.argVars[hp.Name]; !taken {
					fr.argVars[hp.Name] = fr.args[i+off]
				}
			}
		}
	}
	for _, fv := range fn.FreeVars {
		v := e.freshValue(c, "fv_"+fv.Name(), fv.Type())
		c.Assume(e.typeInv(v, st.alloc))
		if fr.freeVars == nil {
			fr.freeVars = map[*ssa.FreeVar]*Value{}
		}
		fr.freeVars[fv] = v
	}
	fr.entrySt = st.Clone()
	x.collectInputs(fr, st)
	envPre := &SpecEnv{x: x, vars: fr.argVars, st: st, old: st, fn: fn}
	if fn.Pkg != nil && !fc.PkgInit {
		for _, inv := range e.pkgInvs[fn.Pkg.Pkg.Path()] {
			t, err := envPre.EvalAssume(inv.E)
			if err != nil {
				fr.contractError(inv, err)
				continue
			}
			c.Assume(t)
			c.Trust("package invariant (established by init, assumed preserved): " + inv.Text)
		}
	}
	for _, rq := range fc.Requires {
		t, err := envPre.EvalAssume(rq.E)
		if err != nil {
			fr.contractError(rq, err)
			continue
		}
		c.Assume(t)
	}
	x.stack = []*ssa.Function{fn}
	fr.edges[fn.Blocks[0]] = []Edge{{TTrue, st, nil}}
	fr.run()
	// postconditions at every return
	var retConds []Term
	coverTerms := make([][]Term, len(fc.Covers))
	for ri, r := range fr.rets {
		retConds = append(retConds, r.cond)
		vars := map[string]*Value{}
		for k, v := range fr.argVars {
			vars[k] = v
		}
		var res *Value
		switch len(r.vals) {
		case 0:
		case 1:
			res = r.vals[0]
		default:
			res = &Value{T: fn.Signature.Results()}
			for _, v := range r.vals {
				res.C = append(res.C, v.C...)
			}
		}
		bindResults(vars, fn.Signature, fc, e, res)
		// pointer overlays (addresses of elements / fields) are lost when the results are flattened: re-attach them
		for i, rv := range r.vals {
			if rv.P == nil {
				continue
			}
			for k, bv := range vars {
				if bv != nil && bv.P == nil && bv.T != nil && len(bv.C) == len(rv.C) && len(rv.C) == 1 && bv.C[0].S == rv.C[0].S && types.Identical(bv.T, rv.T) {
					if k == fmt.Sprintf("result%d", i) || (len(r.vals) == 1 && k == "result") || fn.Signature.Results().At(i).Name() == k {
						vars[k] = rv
					}
				}
			}
		}
		env := &SpecEnv{x: x, vars: vars, st: r.st, old: fr.entrySt, fn: fn, frame: fr}
		fr.reach = r.cond
		fr.cur = r.st
		ce.outVals = r.vals
		ce.outRow = nil
		for _, v := range r.vals {
			var row Term
			if sl, ok := v.T.Underlying().(*types.Slice); ok && len(e.layout(sl.Elem())) == 1 {
				key, _ := e.heapKey("M", sl.Elem(), 0)
				row = Select(x.heapGet(r.st, key), v.C[0])
			}
			ce.outRow = append(ce.outRow, row)
		}
		for i, pv := range fc.Proves {
			// proof hint: proved here, then available to the postconditions (assert-then-assume)
			t, err := env.EvalBool(pv.E)
			if err != nil {
				if ri == 0 {
					fr.contractError(pv, err)
				}
				continue
			}
			fr.obligation("proves", labelOr(pv.Label, i+1), r.cond, t, pv.Text)
			if ta, err := env.EvalAssume(pv.E); err == nil {
				c.Assume(Implies(r.cond, ta))
			}
		}
		for i, en := range fc.Ensures {
			t, err := env.EvalBool(en.E)
			if err != nil {
				if ri == 0 {
					fr.contractError(en, err)
				}
				continue
			}
			fr.obligation("ensures", labelOr(en.Label, i+1), r.cond, t, en.Text)
		}
		for i, cv := range fc.Covers {
			if t, err := env.EvalBool(cv.E); err == nil {
				coverTerms[i] = append(coverTerms[i], And(r.cond, t))
			} else if ri == 0 {
				fr.contractError(cv, err)
			}
		}
		if !fc.HasAsg && !fc.PkgInit {
			// no frame: callers keep what they know about their mutexes across a call of this function, so it must
			// return with every mutex that existed at entry as it found it
			for _, k := range e.lockKeys() {
				if _, touched := r.st.heap[k]; !touched || x.heapGet(r.st, k).S == x.heapGet(fr.entrySt, k).S {
					continue
				}
				rv := Term{S: "r$lk", Sort: SInt}
				goal := Forall([]Term{rv}, Implies(And(Le(IntLit(1), rv), Lt(rv, x.entryAlloc)), Eq(Select(x.heapGet(r.st, k), rv), Select(x.heapGet(fr.entrySt, k), rv))), Select(x.heapGet(r.st, k), rv))
				fr.obligation("lock-neutral", shortKey(k), r.cond, goal, "a function without an assigns clause returns with every mutex as it found it")
			}
		}
		if fc.HasAsg && !fc.TrustFrame {
			x.checkFrame(fr, fc, r, envPre)
		} else if fc.TrustFrame {
			c.Trust("frame (assigns clause) of " + fc.Key + " is assumed, not checked against its body")
		}
	}
	// vacuity: some return must be reachable under the precondition
	if len(retConds) > 0 {
		o := &Obligation{Name: name + "#cover#some-return-reachable", Func: name, Kind: "cover", Label: "some-return-reachable", Reach: Or(retConds...), Goal: TTrue, Cover: true, Props: ce.props}
		c.AddObl(o)
		for i, cv := range fc.Covers {
			// stated vacuity guard: the condition must not be refutable at every return (e.g. "the import can succeed")
			oc := &Obligation{Name: name + "#cover#" + labelOr(cv.Label, i+1), Func: name, Kind: "cover", Label: labelOr(cv.Label, i+1), Reach: Or(coverTerms[i]...), Goal: TTrue, Cover: true, Props: ce.props, Comment: "satisfiable at some return: " + cv.Text}
			c.AddObl(oc)
		}
	} else if rep.Unsupported == "" {
		rep.Errors = append(rep.Errors, "no reachable return: contract vacuous or function always panics")
	}
	return
}

// checkFrame proves that only the declared locations were written.
func (x *Exec) checkFrame(fr *Frame, fc *FuncContract, r RetEdge, envPre *SpecEnv) {
	e := x.eng
	entry := fr.entrySt
	if fmt.Sprintf("%p", r.st.base) != fmt.Sprintf("%p", entry.base) {
		fr.obligation("assigns", "heap-havocked-by-unknown-call", r.cond, TFalse, "a callee without frame was called")
		return
	}
	// assignable locations: (heap key -> list of refs)
	allowed := map[string][]Term{}
	allowRows := map[string][]Term{}
	var allowedAny []Term // objects behind interfaces: any field key of an implementing type
	allowedAnyT := map[string]bool{}
	for _, a := range fc.Assigns {
		func() {
			defer func() {
				if rr := recover(); rr != nil {
					if se, ok := rr.(specErr); ok {
						x.cur.errors = append(x.cur.errors, fmt.Sprintf("%s: assigns: %v", fc.Key, se))
						return
					}
					panic(rr)
				}
			}()
			switch n := a.(type) {
			case *ESel:
				base := envPre.eval(n.X)
				if !isPointer(base.T) {
					if b, _, off, cnt, ok := x.nestedSel(envPre, n); ok {
						for j := off; j < off+cnt; j++ {
							key, _ := e.heapKey("H", derefT(b.T), j)
							allowed[key] = append(allowed[key], b.C[0])
						}
						return
					}
				}
				st := derefT(base.T).Underlying().(*types.Struct)
				if off, cnt, _, ok := e.ghostField(base.T, n.Name); ok {
					for j := off; j < off+cnt; j++ {
						key, _ := e.heapKey("H", derefT(base.T), j)
						allowed[key] = append(allowed[key], base.C[0])
					}
				}
				for i := 0; i < st.NumFields(); i++ {
					if st.Field(i).Name() == n.Name {
						off, cnt := e.fieldRange(st, i)
						for j := off; j < off+cnt; j++ {
							key, _ := e.heapKey("H", derefT(base.T), j)
							allowed[key] = append(allowed[key], base.C[0])
						}
					}
				}
			default:
				v := envPre.eval(a)
				switch u := v.T.Underlying().(type) {
				case *types.Pointer:
					el := u.Elem()
					if rt := e.readerType(); rt != nil && e.bufferType() != nil && types.Identical(el, rt) {
						el = e.bufferType() // *bytes.Reader shares the ghost stream layout of bytes.Buffer
					}
					for j := range e.layout(el) {
						key, _ := e.heapKey("H", el, j)
						allowed[key] = append(allowed[key], v.C[0])
					}
				case *types.Slice:
					for j := range e.layout(u.Elem()) {
						key, _ := e.heapKey("M", u.Elem(), j)
						allowRows[key] = append(allowRows[key], v.C[0])
					}
				case *types.Interface:
					if isStreamIface(u) && e.bufferType() != nil {
						bt := e.bufferType()
						for j := range e.layout(bt) {
							key, _ := e.heapKey("H", bt, j)
							allowed[key] = append(allowed[key], v.C[1])
						}
					} else {
						allowedAny = append(allowedAny, v.C[1])
						for k := range e.implementers(u) {
							allowedAnyT[k] = true
						}
					}
				}
			}
		}()
	}
	var parts []framePart
	defer func() {
		if len(parts) == 0 {
			return
		}
		var gs []Term
		var labels []string
		for _, pt := range parts {
			gs = append(gs, pt.Goal)
			labels = append(labels, pt.Label)
		}
		before := len(x.ctx.obls)
		fr.obligation("assigns", "only-declared-locations-written", r.cond, And(gs...), "frame: only declared locations are written ("+strings.Join(labels, ", ")+")")
		if len(x.ctx.obls) > before {
			x.ctx.obls[len(x.ctx.obls)-1].Parts = parts
		}
	}()
	for _, key := range sortedKeys(r.st.heap) {
		now := r.st.heap[key]
		was := x.heapGet(entry, key)
		if now.S == was.S {
			continue
		}
		if strings.HasPrefix(key, "G:") {
			fr.obligation("assigns", "global-unchanged "+key, r.cond, Eq(now, was), "package-level variable written")
			continue
		}
		x.ctx.n++
		rv := Term{S: fmt.Sprintf("r$%d", x.ctx.n), Sort: SInt}
		var excl []Term
		for _, a := range allowed[key] {
			excl = append(excl, Neq(rv, a))
		}
		for _, a := range allowRows[key] {
			excl = append(excl, Neq(rv, a))
		}
		if j := strings.LastIndex(key, "#"); strings.HasPrefix(key, "H:") && j > 2 && allowedAnyT[key[2:j]] {
			for _, a := range allowedAny {
				excl = append(excl, Neq(rv, a))
			}
		}
		goal := Forall([]Term{rv}, Implies(And(append([]Term{Lt(IntLit(0), rv), Lt(rv, entry.alloc)}, excl...)...), Eq(Select(now, rv), Select(was, rv))))
		if goal.S != "true" {
			parts = append(parts, framePart{shortKey(key), goal})
		}
	}
}

// collectInputs records the model variables that describe the inputs.
func (x *Exec) collectInputs(fr *Frame, st *State) {
	var flat []ModelVar
	for _, p := range fr.fn.Params {
		x.cur.inSpecs = append(x.cur.inSpecs, x.buildInSpec(p.Name(), fr.vals[p], st, 0, &flat))
	}
	x.cur.inputs = flat
}

// verifyLemma proves a lemma from the axioms and earlier lemmas.
func (e *Engine) verifyLemma(ax *Axiom) *FuncReport {
	ce := newCheckEnv("lemma."+ax.Name, nil)
	ce.props = ax.Props
	x := e.newExec(ce)
	rep := &FuncReport{Name: "lemma." + ax.Name, Key: ax.Name}
	defer func() {
		if r := recover(); r != nil {
			if se, ok := r.(specErr); ok {
				rep.Errors = append(rep.Errors, se.msg)
			} else {
				panic(r)
			}
		}
		rep.Obls = x.ctx.obls
		rep.Errors = append(rep.Errors, ce.errors...)
		for k := range x.ctx.assumed {
			rep.Trusts = append(rep.Trusts, k)
		}
	}()
	x.assumeAxioms(ax)
	env := &SpecEnv{x: x, vars: map[string]*Value{}}
	t, err := env.EvalBool(ax.E)
	if err != nil {
		rep.Errors = append(rep.Errors, fmt.Sprintf("%s:%d: lemma %s: %v", ax.File, ax.Line, ax.Name, err))
		return rep
	}
	o := &Obligation{Name: "lemma." + ax.Name + "#lemma#holds", Func: rep.Name, Kind: "lemma", Label: "holds", Reach: TTrue, Goal: t, Comment: ax.Text, Props: ax.Props}
	x.ctx.AddObl(o)
	return rep
}
