package main

// Symbolic execution of go/ssa functions in passive (merged) form.

import (
	"fmt"
	"go/token"
	"go/types"
	"sort"
	"strings"

	"golang.org/x/tools/go/ssa"
)

type Edge struct {
	cond Term
	st   *State
	from *ssa.BasicBlock
}

type Loop struct {
	header  *ssa.BasicBlock
	body    map[*ssa.BasicBlock]bool
	ordinal int
	dry     bool
	hdrSt   *State
	dec0    Term
	hasDec  bool
	frames  []loopFrame
	accs    []func(st *State) Term
}

type loopFrame struct {
	key  string
	f    func(now Term) Term
	fkey string
}

// onlySelfAppended: every store to local a inside the loop assigns append(a', ...) or a slice of a',
// where a' is a value loaded from a.
func (fr *Frame) onlySelfAppended(lp *Loop, a *ssa.Alloc) bool {
	fromSelf := func(v ssa.Value) bool {
		for depth := 0; depth < 4; depth++ {
			switch n := v.(type) {
			case *ssa.UnOp:
				return n.X == a
			case *ssa.Slice:
				v = n.X
			case *ssa.Call:
				b, ok := n.Call.Value.(*ssa.Builtin)
				if !ok || b.Name() != "append" {
					return false
				}
				v = n.Call.Args[0]
			default:
				return false
			}
		}
		return false
	}
	found := false
	for b := range lp.body {
		for _, in := range b.Instrs {
			st, ok := in.(*ssa.Store)
			if !ok || st.Addr != a {
				continue
			}
			found = true
			if !fromSelf(st.Val) {
				return false
			}
		}
	}
	return found
}

// stableTerm: the term mentions no constant created after the stamp.
func stableTerm(t Term, stamp int) bool {
	s := t.S
	for i := 0; i < len(s); i++ {
		if s[i] == '!' {
			j := i + 1
			n := 0
			for j < len(s) && s[j] >= '0' && s[j] <= '9' {
				n = n*10 + int(s[j]-'0')
				j++
			}
			if n > stamp {
				return false
			}
			i = j
		}
	}
	return true
}

// loopFrame builds the frame invariant of heap key k for a loop, or nil when the
// body writes through references that are not loop-invariant.
func (fr *Frame) loopFrame(lp *Loop, k string, wild map[string]bool, refs map[string]map[string]Term, stamp int, se *State) func(Term) Term {
	if wild[k] || len(k) < 2 || (k[:2] != "H:" && k[:2] != "M:") {
		return nil
	}
	var rs []Term
	for _, r := range refs[k] {
		if !stableTerm(r, stamp) {
			// a reference computed inside the loop: optimistically taken to be an object
			// allocated by the loop itself; the frame is re-checked at every back edge
			continue
		}
		rs = append(rs, r)
	}
	was := fr.x.heapGet(se, k)
	allocE := se.alloc
	return func(now Term) Term {
		fr.x.ctx.n++
		rv := Term{S: fmt.Sprintf("r$%d", fr.x.ctx.n), Sort: SInt}
		cs := []Term{Lt(IntLit(0), rv), Lt(rv, allocE)}
		for _, r := range rs {
			cs = append(cs, Neq(rv, r))
		}
		return Forall([]Term{rv}, Implies(And(cs...), Eq(Select(now, rv), Select(was, rv))), Select(now, rv))
	}
}

type RetEdge struct {
	cond Term
	st   *State
	vals []*Value
}

type Frame struct {
	x           *Exec
	fn          *ssa.Function
	vals        map[ssa.Value]*Value
	edges       map[*ssa.BasicBlock][]Edge
	loops       map[*ssa.BasicBlock]*Loop
	order       []*ssa.BasicBlock
	rets        []RetEdge
	depth       int
	fc          *FuncContract // contract of this function (loop invariants)
	entrySt     *State
	args        []*Value
	argVars     map[string]*Value
	prefix      string
	reach       Term
	cur         *State
	curBlock    *ssa.BasicBlock
	incoming    []Edge
	dryStack    []*Loop
	defers      []*ssa.Defer
	inPanicEdge bool
	panicNoted  bool
	parent      *Frame
	freeVars    map[*ssa.FreeVar]*Value
	dead        bool // current path ended (panic / no-return)
	counters    map[string]int
	curInstrPos token.Pos
	callStamp int // index of the newest symbol that existed before the current contract call
	resNames map[string]bool
	freshNames map[string]*Value
}

type unsupported struct{ msg string }

func (fr *Frame) unsupported(format string, args ...interface{}) {
	panic(unsupported{fmt.Sprintf("%s: ", fr.fn.String()) + fmt.Sprintf(format, args...)})
}

func (x *Exec) newFrame(fn *ssa.Function, parent *Frame, fc *FuncContract) *Frame {
	fr := &Frame{x: x, fn: fn, vals: map[ssa.Value]*Value{}, edges: map[*ssa.BasicBlock][]Edge{}, fc: fc, parent: parent, counters: map[string]int{}}
	if parent != nil {
		fr.depth = parent.depth + 1
	}
	fr.analyse()
	return fr
}

// analyse computes reverse post-order (ignoring back edges) and natural loops.
func (fr *Frame) analyse() {
	fn := fr.fn
	fr.loops = map[*ssa.BasicBlock]*Loop{}
	if len(fn.Blocks) == 0 {
		return
	}
	// back edges: u->h where h dominates u
	for _, u := range fn.Blocks {
		for _, h := range u.Succs {
			if h.Dominates(u) {
				lp := fr.loops[h]
				if lp == nil {
					lp = &Loop{header: h, body: map[*ssa.BasicBlock]bool{h: true}}
					fr.loops[h] = lp
				}
				// natural loop: nodes that reach u without passing h
				stack := []*ssa.BasicBlock{u}
				for len(stack) > 0 {
					b := stack[len(stack)-1]
					stack = stack[:len(stack)-1]
					if lp.body[b] {
						continue
					}
					lp.body[b] = true
					stack = append(stack, b.Preds...)
				}
			}
		}
	}
	var hdrs []*ssa.BasicBlock
	for h := range fr.loops {
		hdrs = append(hdrs, h)
	}
	sort.Slice(hdrs, func(i, j int) bool { return hdrs[i].Index < hdrs[j].Index })
	for i, h := range hdrs {
		fr.loops[h].ordinal = i + 1
	}
	// RPO ignoring back edges
	seen := map[*ssa.BasicBlock]bool{}
	var post []*ssa.BasicBlock
	var dfs func(b *ssa.BasicBlock)
	dfs = func(b *ssa.BasicBlock) {
		seen[b] = true
		for _, s := range b.Succs {
			if !seen[s] && !s.Dominates(b) {
				dfs(s)
			}
		}
		post = append(post, b)
	}
	dfs(fn.Blocks[0])
	if fn.Recover != nil && !seen[fn.Recover] {
		// recover block is not reachable by normal edges; ignored
	}
	for i := len(post) - 1; i >= 0; i-- {
		fr.order = append(fr.order, post[i])
	}
}

// localByName finds the Alloc for a source variable, preferring the latest
// declaration before the loop header hdr (or any when hdr == nil).
func (fr *Frame) localByName(name string, hdr *ssa.BasicBlock) *ssa.Alloc {
	var best *ssa.Alloc
	var limit token.Pos = token.Pos(1 << 40)
	if hdr != nil {
		for _, in := range hdr.Instrs {
			if in.Pos().IsValid() {
				limit = in.Pos()
				break
			}
		}
		if limit == token.Pos(1<<40) {
			// header without positions: use the first positioned instruction in the body
			for _, s := range hdr.Succs {
				for _, in := range s.Instrs {
					if in.Pos().IsValid() && in.Pos() < limit {
						limit = in.Pos()
					}
				}
			}
		}
	}
	for _, b := range fr.fn.Blocks {
		for _, in := range b.Instrs {
			a, ok := in.(*ssa.Alloc)
			if !ok || a.Comment != name {
				continue
			}
			if name == "rangeindex" {
				// the range index belonging to this header: stored in hdr
				if hdr != nil && usesIn(hdr, a) {
					return a
				}
				continue
			}
			if a.Heap {
				// escaping variable: still addressable through its cell value
			}
			if a.Pos().IsValid() && a.Pos() > limit {
				continue
			}
			if best == nil || a.Pos() >= best.Pos() {
				best = a
			}
		}
	}
	return best
}

func usesIn(b *ssa.BasicBlock, a *ssa.Alloc) bool {
	for _, in := range b.Instrs {
		for _, op := range in.Operands(nil) {
			if *op == a {
				return true
			}
		}
	}
	return false
}

// ---------- running

func (fr *Frame) run() {
	fr.runBlocks(fr.order, nil)
}

func (fr *Frame) runBlocks(order []*ssa.BasicBlock, dryOf *Loop) {
	for _, b := range order {
		if dryOf != nil && !dryOf.body[b] {
			continue
		}
		edges := fr.edges[b]
		if len(edges) == 0 {
			continue
		}
		delete(fr.edges, b)
		if lp := fr.loops[b]; lp != nil && lp != dryOf {
			fr.enterLoop(lp, edges, order)
			continue
		}
		reach, st := fr.merge(edges, b)
		fr.execBlock(b, reach, st, edges)
	}
}

func (fr *Frame) pushEdge(from, to *ssa.BasicBlock, cond Term, st *State) {
	if cond.S == "false" {
		return
	}
	if lp := fr.loops[to]; lp != nil && to.Dominates(from) {
		// back edge
		if lp.dry {
			return
		}
		fr.checkLoopBack(lp, cond, st)
		return
	}
	if n := len(fr.dryStack); n > 0 && !fr.dryStack[n-1].body[to] {
		return // leaving the loop during its dry run
	}
	fr.edges[to] = append(fr.edges[to], Edge{cond, st, from})
}

func (fr *Frame) merge(edges []Edge, b *ssa.BasicBlock) (Term, *State) {
	c := fr.x.ctx
	if len(edges) == 1 {
		return edges[0].cond, edges[0].st
	}
	var conds []Term
	for _, e := range edges {
		conds = append(conds, e.cond)
	}
	reach := c.Name(fmt.Sprintf("R%d", b.Index), Or(conds...))
	out := &State{heap: map[string]Term{}, base: edges[0].st.base, locals: map[ssa.Value]*Value{}}
	for k, rec := range edges[0].st.content {
		same := true
		for _, e := range edges[1:] {
			if e.st.content[k] != rec {
				same = false
			}
		}
		if same {
			if out.content == nil {
				out.content = map[string]*contentRec{}
			}
			out.content[k] = rec
		}
	}
	for k, rec := range edges[0].st.gcontent {
		same := true
		for _, e := range edges[1:] {
			if e.st.gcontent[k] != rec {
				same = false
			}
		}
		if same {
			if out.gcontent == nil {
				out.gcontent = map[string]*ghostRec{}
			}
			out.gcontent[k] = rec
		}
	}
	mergeTerms := func(ts []Term, hint string) Term {
		same := true
		for _, t := range ts[1:] {
			if t.S != ts[0].S {
				same = false
				break
			}
		}
		if same {
			return ts[0]
		}
		t := ts[len(ts)-1]
		for i := len(ts) - 2; i >= 0; i-- {
			t = Ite(edges[i].cond, ts[i], t)
		}
		return c.Name(hint, t)
	}
	// heap keys
	keys := map[string]bool{}
	sameBase := true
	for _, e := range edges {
		for k := range e.st.heap {
			keys[k] = true
		}
		if fmt.Sprintf("%p", e.st.base) != fmt.Sprintf("%p", out.base) {
			sameBase = false
		}
	}
	if !sameBase {
		for _, e := range edges {
			for k := range e.st.base {
				keys[k] = true
			}
		}
	}
	for _, k := range sortedKeys(keys) {
		ts := make([]Term, len(edges))
		for i, e := range edges {
			ts[i] = fr.x.heapGet(e.st, k)
		}
		m := mergeTerms(ts, "m")
		if sameBase {
			if bt, ok := out.base[k]; ok && bt.S == m.S {
				continue
			}
		}
		out.heap[k] = m
	}
	// alloc
	{
		ts := make([]Term, len(edges))
		for i, e := range edges {
			ts[i] = e.st.alloc
		}
		out.alloc = mergeTerms(ts, "alloc")
	}
	// locals
	lkeys := map[ssa.Value]bool{}
	for _, e := range edges {
		for k := range e.st.locals {
			lkeys[k] = true
		}
	}
	for k := range lkeys {
		var vs []*Value
		var idx []int
		for i, e := range edges {
			if v, ok := e.st.locals[k]; ok {
				vs = append(vs, v)
				idx = append(idx, i)
			}
		}
		if len(vs) == 1 {
			out.locals[k] = vs[0]
			continue
		}
		// pointer overlays must agree
		v0 := vs[0]
		okShape := true
		for _, v := range vs[1:] {
			if len(v.C) != len(v0.C) || !samePtr(v.P, v0.P) {
				okShape = false
			}
		}
		if !okShape {
			// conflicting engine-level pointers: keep the first, note imprecision
			fr.x.ctx.Note(fmt.Sprintf("%s: local %s merged with conflicting pointer overlays", fr.fn.Name(), k.Name()))
			out.locals[k] = v0
			continue
		}
		nv := &Value{T: v0.T, P: v0.P, C: make([]Term, len(v0.C))}
		for j := range v0.C {
			t := vs[len(vs)-1].C[j]
			same := true
			for _, v := range vs {
				if v.C[j].S != t.S {
					same = false
				}
			}
			if !same {
				for i := len(vs) - 2; i >= 0; i-- {
					t = Ite(edges[idx[i]].cond, vs[i].C[j], t)
				}
				t = c.Name("l_"+k.Name(), t)
				if len(vs) == 2 {
					fr.x.iteDefs[t.S] = [3]Term{edges[idx[0]].cond, vs[0].C[j], vs[1].C[j]}
				}
			}
			nv.C[j] = t
		}
		out.locals[k] = nv
	}
	return reach, out
}

func samePtr(a, b *Ptr) bool {
	if a == nil || b == nil {
		return a == b
	}
	if a.Local != b.Local || a.Global != b.Global || a.Heap.S != b.Heap.S || a.Elem != b.Elem || a.Idx.S != b.Idx.S || len(a.Path) != len(b.Path) {
		return false
	}
	for i := range a.Path {
		if a.Path[i].Field != b.Path[i].Field || a.Path[i].Index.S != b.Path[i].Index.S {
			return false
		}
	}
	return true
}

// ---------- loops

func (fr *Frame) loopEnv(lp *Loop, st *State) *SpecEnv {
	return &SpecEnv{x: fr.x, vars: fr.argVars, st: st, old: fr.entrySt, fn: fr.fn, frame: fr, hdr: lp.header}
}

func (fr *Frame) loopInvariants(lp *Loop) []Clause {
	var out []Clause
	if fr.fc != nil {
		out = append(out, fr.fc.LoopInv[lp.ordinal]...)
	}
	return out
}

// autoInvariants: the hidden range index of range loops stays within bounds.
func (fr *Frame) autoInv(lp *Loop, st *State) Term {
	var cs []Term
	for _, in := range lp.header.Instrs {
		// pattern: t7 = *ri ; t8 = t7 + 1 ; *ri = t8 ; t9 = t8 < tlen
		if st0, ok := in.(*ssa.Store); ok {
			if a, ok := st0.Addr.(*ssa.Alloc); ok && a.Comment == "rangeindex" {
				// find the comparison
				for _, in2 := range lp.header.Instrs {
					if bo, ok := in2.(*ssa.BinOp); ok && bo.Op == token.LSS && bo.X == st0.Val {
						if lv, ok := fr.vals[bo.Y]; ok {
							cell := st.locals[a]
							if cell != nil {
								ri := cell.C[0]
								cs = append(cs, Le(IntLit(-1), ri), Lt(ri, Ite(Lt(lv.C[0], IntLit(0)), IntLit(0), lv.C[0])))
							}
						}
					}
				}
			}
		}
	}
	return And(cs...)
}

func (fr *Frame) enterLoop(lp *Loop, edges []Edge, order []*ssa.BasicBlock) {
	x := fr.x
	c := x.ctx
	reach, se := fr.merge(edges, lp.header)
	reach = c.Name(fmt.Sprintf("Rloop%d", lp.ordinal), reach)
	invs := fr.loopInvariants(lp)
	lp.frames = nil
	lp.accs = nil
	// 1. invariants hold on entry
	envE := fr.loopEnv(lp, se)
	for i, inv := range invs {
		t, err := envE.EvalBool(inv.E)
		if err != nil {
			fr.contractError(inv, err)
			continue
		}
		fr.obligation("inv-entry", fmt.Sprintf("loop%d.%s", lp.ordinal, labelOr(inv.Label, i+1)), reach, t, inv.Text)
	}
	// 2. dry run to find the modified set
	snap := c.Snapshot()
	// caches that hold terms declared during the dry run must not survive it
	savedProxies := len(x.proxies)
	savedUfApps := map[string][][]Term{}
	for k, v := range x.ufApps {
		savedUfApps[k] = append([][]Term(nil), v...)
	}
	savedMat := map[string]*SeqV{}
	for k, v := range x.matSeq {
		savedMat[k] = v
	}
	savedIte := map[string][3]Term{}
	for k, v := range x.iteDefs {
		savedIte[k] = v
	}
	savedLog, savedLw, savedLogging := x.writeLog, x.lwLog, x.logging
	savedWild, savedRef := x.wildLog, x.refLog
	x.writeLog, x.lwLog, x.logging = map[string]bool{}, map[ssa.Value]bool{}, true
	x.wildLog, x.refLog = map[string]bool{}, map[string]map[string]Term{}
	stamp := c.n
	savedRets := len(fr.rets)
	savedNames := map[string]int{}
	for k, v := range x.cur.names {
		savedNames[k] = v
	}
	savedEdges := fr.edges
	fr.edges = map[*ssa.BasicBlock][]Edge{lp.header: {{reach, se.Clone(), nil}}}
	lp.dry = true
	fr.dryStack = append(fr.dryStack, lp)
	savedDefers := len(fr.defers)
	func() {
		defer func() {
			lp.dry = false
			fr.dryStack = fr.dryStack[:len(fr.dryStack)-1]
			fr.edges = savedEdges
			fr.rets = fr.rets[:savedRets]
			fr.defers = fr.defers[:savedDefers]
		}()
		fr.runBlocks(order, lp)
	}()
	wl, lw := x.writeLog, x.lwLog
	wild, refs := x.wildLog, x.refLog
	x.writeLog, x.lwLog, x.logging = savedLog, savedLw, savedLogging
	x.wildLog, x.refLog = savedWild, savedRef
	c.Restore(snap)
	x.ufApps, x.matSeq, x.iteDefs = savedUfApps, savedMat, savedIte
	x.proxies = x.proxies[:savedProxies]
	x.cur.names = savedNames
	// 3. havoc the modified set
	sh := se.Clone()
	var invTerms []Term
	for _, k := range sortedKeys(wl) {
		if k == "$alloc" {
			na := c.Fresh("alloc", SInt)
			invTerms = append(invTerms, Le(se.alloc, na))
			x.setAlloc(sh, na)
			continue
		}
		if k == "$all" {
			x.havocAll(sh)
			continue
		}
		srt := x.eng.heapSorts[k]
		nt := c.Fresh("Hl_"+shortKey(k), srt)
		c.Assume(x.eng.rangeAxiom(k, nt))
		// automatic loop frame: objects allocated before the loop that the body never
		// writes keep their contents (checked again at every back edge)
		fkey := fmt.Sprintf("%s|%d|%s", fr.fn.Name(), lp.ordinal, k)
		if fc := fr.loopFrame(lp, k, wild, refs, stamp, se); fc != nil && !x.eng.disabledFrames[x.cur.fnName+"|"+fkey] {
			c.Assume(Implies(reach, fc(nt)))
			lp.frames = append(lp.frames, loopFrame{k, fc, fkey})
			x.heapSetFresh(sh, k, nt)
			for _, r := range refs[k] {
				x.heapSetAt(sh, k, nt, r)
			}
		} else {
			x.heapSet(sh, k, nt)
		}
	}
	var lks []ssa.Value
	for a := range lw {
		lks = append(lks, a)
	}
	sort.Slice(lks, func(i, j int) bool { return lks[i].Name() < lks[j].Name() })
	for _, a := range lks {
		old := se.locals[a]
		if old == nil {
			continue // declared inside the loop: initialised before use
		}
		var nv *Value
		if old.P != nil {
			nv = old // pointer overlays are not re-assigned in loops we support
			continue
		}
		nv = &Value{T: old.T, C: make([]Term, len(old.C))}
		for j := range old.C {
			nv.C[j] = c.Fresh("l_"+a.Name(), old.C[j].Sort)
		}
		x.setLocal(sh, a, nv)
		invTerms = append(invTerms, x.eng.typeInv(nv, sh.alloc))
		// accumulator idiom: a local slice that the loop only re-assigns from append/slicing of
		// itself keeps its original backing array or one allocated inside the loop
		if al, ok := a.(*ssa.Alloc); ok && isSlice(old.T) && fr.onlySelfAppended(lp, al) {
			inv := Or(Eq(nv.C[0], old.C[0]), Eq(nv.C[0], IntLit(0)), Ge(nv.C[0], se.alloc))
			invTerms = append(invTerms, inv)
			entryRef, allocE := old.C[0], se.alloc
			lp.accs = append(lp.accs, func(st *State) Term {
				cur := st.locals[al]
				if cur == nil {
					return TTrue
				}
				return Or(Eq(cur.C[0], entryRef), Eq(cur.C[0], IntLit(0)), Ge(cur.C[0], allocE))
			})
		}
		if rg, ok := a.(*ssa.Range); ok {
			if sv := fr.vals[rg.X]; sv != nil && isString(sv.T) {
				invTerms = append(invTerms, Le(IntLit(0), nv.C[0]), Le(nv.C[0], sv.C[2]))
			}
		}
	}
	c.Assume(Implies(reach, And(invTerms...)))
	// 4. assume invariants
	envH := fr.loopEnv(lp, sh)
	for _, inv := range invs {
		t, err := envH.EvalAssume(inv.E)
		if err != nil {
			continue
		}
		c.Assume(Implies(reach, t))
	}
	lp.hdrSt = sh
	lp.hasDec = false
	_ = wild
	if fr.fc != nil {
		if d, ok := fr.fc.LoopDec[lp.ordinal]; ok {
			t, err := envH.EvalInt(d.E)
			if err != nil {
				fr.contractError(d, err)
			} else {
				lp.dec0 = c.Name("dec0", t)
				lp.hasDec = true
			}
		}
	}
	c.Assume(Implies(reach, fr.autoInv(lp, sh)))
	fr.execBlock(lp.header, reach, sh, []Edge{{reach, sh, nil}})
	if x.logging {
		for k := range wl {
			x.writeLog[k] = true
		}
		for k := range lw {
			x.lwLog[k] = true
		}
		for k := range wild {
			x.wildLog[k] = true
		}
		for k, m := range refs {
			if x.refLog[k] == nil {
				x.refLog[k] = map[string]Term{}
			}
			for rs, r := range m {
				x.refLog[k][rs] = r
			}
		}
	}
}

// autoInvPost: after the header executed once (index already incremented): 0 <= ri.
func (fr *Frame) autoInvPost(lp *Loop, st *State) Term {
	var cs []Term
	for _, in := range lp.header.Instrs {
		if st0, ok := in.(*ssa.Store); ok {
			if a, ok := st0.Addr.(*ssa.Alloc); ok && a.Comment == "rangeindex" {
				if cell := st.locals[a]; cell != nil {
					cs = append(cs, Le(IntLit(0), cell.C[0]))
				}
			}
		}
	}
	return And(cs...)
}

func (fr *Frame) checkLoopBack(lp *Loop, cond Term, st *State) {
	c := fr.x.ctx
	env := fr.loopEnv(lp, st)
	for i, inv := range fr.loopInvariants(lp) {
		t, err := env.EvalBool(inv.E)
		if err != nil {
			fr.contractError(inv, err)
			continue
		}
		fr.obligation("inv-preserve", fmt.Sprintf("loop%d.%s", lp.ordinal, labelOr(inv.Label, i+1)), cond, t, inv.Text)
	}
	for i, acc := range lp.accs {
		fr.obligation("inv-preserve", fmt.Sprintf("loop%d.auto-accumulator%d", lp.ordinal, i+1), cond, acc(st), "a slice only appended to keeps its own or a loop-allocated backing array")
	}
	{
		// the speculative frames of one back edge are decided together (split only when the conjunction fails)
		var parts []framePart
		var keys []string
		var goals []Term
		for _, lf := range lp.frames {
			g := lf.f(fr.x.heapGet(st, lf.key))
			if g.S == "true" {
				continue
			}
			parts = append(parts, framePart{shortKey(lf.key), g})
			keys = append(keys, fr.x.cur.fnName+"|"+lf.fkey)
			goals = append(goals, g)
		}
		const chunk = 10
		for lo := 0; lo < len(parts); lo += chunk {
			hi := min(lo+chunk, len(parts))
			before := len(fr.x.ctx.obls)
			fr.obligation("inv-preserve", fmt.Sprintf("loop%d.auto-frames %s..", lp.ordinal, parts[lo].Label), cond, And(goals[lo:hi]...), "objects not written by the loop body are unchanged")
			if n := len(fr.x.ctx.obls); n > before {
				fr.x.ctx.obls[n-1].Parts = parts[lo:hi]
				fr.x.ctx.obls[n-1].AutoKeys = keys[lo:hi]
				fr.x.ctx.obls[n-1].AutoFrame = "batch"
				fr.x.ctx.obls[n-1].quickOnly = false
			}
		}
	}
	if ai := fr.autoInv(lp, st); ai.S != "true" {
		fr.obligation("inv-preserve", fmt.Sprintf("loop%d.auto-rangeindex", lp.ordinal), cond, ai, "range index within bounds")
	}
	if lp.hasDec {
		d := fr.fc.LoopDec[lp.ordinal]
		t, err := env.EvalInt(d.E)
		if err == nil {
			fr.obligation("decreases", fmt.Sprintf("loop%d", lp.ordinal), cond, And(Le(IntLit(0), lp.dec0), Lt(t, lp.dec0)), d.Text)
		}
	}
	_ = c
}

func labelOr(l string, i int) string {
	if l != "" {
		return l
	}
	return fmt.Sprintf("%d", i)
}

func (fr *Frame) contractError(cl Clause, err error) {
	fr.x.cur.errors = append(fr.x.cur.errors, fmt.Sprintf("%s:%d: %v  [%s]", cl.File, cl.Line, err, cl.Text))
}

// obligation registers a proof obligation at the current point.
func (fr *Frame) obligation(kind, label string, reach Term, goal Term, comment string) {
	x := fr.x
	if goal.S == "true" {
		// trivially true: still counted as discharged syntactically
		x.cur.trivial++
		return
	}
	name := fmt.Sprintf("%s#%s#%s", fr.oblFunc(), kind, label)
	if n := x.cur.names[name]; n > 0 {
		x.cur.names[name] = n + 1
		name = fmt.Sprintf("%s~%d", name, n+1)
	} else {
		x.cur.names[name] = 1
	}
	pos := ""
	if fr.curInstrPos.IsValid() {
		p := x.eng.prog.Fset.Position(fr.curInstrPos)
		pos = fmt.Sprintf("%s:%d", strings.TrimPrefix(p.Filename, repoDir+"/"), p.Line)
	}
	o := &Obligation{Name: name, Func: x.cur.fnName, Kind: kind, Label: label, Reach: reach, Goal: goal, Comment: comment, Pos: pos, Inputs: x.cur.inputs, Props: x.cur.props}
	if kind == "ensures" {
		o.outVals, o.outRow = x.cur.outVals, x.cur.outRow
	}
	x.ctx.AddObl(o)
}

func (fr *Frame) oblFunc() string {
	if fr.parent == nil {
		return fr.x.cur.fnName
	}
	return fr.x.cur.fnName + "/" + fr.fn.Name()
}

// safety: checked (when the kind is enabled) and then assumed.
func (fr *Frame) safety(kind string, cond Term, what string) {
	if cond.S == "true" {
		return
	}
	if fr.x.cur.safety[kind] || fr.x.cur.safety["all"] {
		fr.counters[kind]++
		fr.obligation(kind, what, fr.reach, cond, what)
	}
	fr.x.ctx.Assume(Implies(fr.reach, cond))
}

func (fr *Frame) posLabel() string {
	if fr.curInstrPos.IsValid() {
		p := fr.x.eng.prog.Fset.Position(fr.curInstrPos)
		return fmt.Sprintf("L%d", p.Line)
	}
	return fmt.Sprintf("b%d", fr.curBlock.Index)
}

var _ = types.Typ
