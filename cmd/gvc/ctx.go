package main

// Verification context: an ordered list of SMT lines (declarations and
// assertions). An obligation remembers the prefix of lines that was present
// when it was generated, so later assumptions can never help an earlier proof.

import (
	"bufio"
	"io"
	"bytes"
	"context"
	"fmt"
	"os"
	"os/exec"
	"path/filepath"
	"regexp"
	"sort"
	"strings"
	"sync"
	"time"
)

type Obligation struct {
	Name    string // pkg.Func#kind#label
	Func    string
	Kind    string // requires-call, ensures, bounds, nil, div, make, panic, inv-entry, inv-preserve, decreases, assigns, lemma, cover
	Label   string
	Pos     string
	Prefix  int  // number of ctx lines visible
	Reach   Term // reach condition of the program point
	Goal    Term
	Cover   bool // reachability cover: expected SAT
	Inputs  []ModelVar
	Props   []string
	ctx     *Ctx
	Result  *SolveResult
	Comment string
	AutoFrame string // key of the speculative loop frame this obligation checks
	Parts     []framePart // frame obligations of one return, decided together; split only when the conjunction fails
	AutoKeys   []string   // speculative loop-frame keys checked together (aligned with Parts)
	FailedAuto []string   // those of AutoKeys whose condition did not discharge
	quickOnly  bool
	Static     bool // decided by a scan of the program text (lock-discipline coverage), not by a solver

	replayConfirmed bool
	replayNote      string
	replaySrc       string
	replayOut       string
	outVals         []*Value
	outRow          []Term
}

type framePart struct {
	Label string
	Goal  Term
}

type ModelVar struct {
	Name string // human name e.g. apdu.data.len
	Term Term
}

type SolveResult struct {
	Status  string // unsat, sat, unknown, timeout, error
	Solver  string
	Ms      int64
	Model   map[string]string
	Output  string
	SMTFile string
}

type Ctx struct {
	globals []string // declarations that survive dry-run restores
	lines   []string
	n       int
	obls    []*Obligation
	discard bool // dry-run mode: obligations and assumptions are dropped
	named   map[string]Term
	defs    map[string]string // named constant -> defining term
	birth   map[string]int    // fresh reference -> index at allocation
	notes   []string
	assumed map[string]bool // assumption registry (for evidence)
	frameMem map[string]frameRec // heap array that agrees with an older one on every object that existed at stamp
}

type frameRec struct {
	old   string
	stamp int
}

func NewCtx() *Ctx {
	return &Ctx{named: map[string]Term{}, assumed: map[string]bool{}, defs: map[string]string{}, birth: map[string]int{}, frameMem: map[string]frameRec{}}
}

var nameClean = regexp.MustCompile(`[^A-Za-z0-9_.$]`)

func (c *Ctx) Fresh(hint string, s Sort) Term {
	c.n++
	name := fmt.Sprintf("%s!%d", nameClean.ReplaceAllString(hint, "_"), c.n)
	c.lines = append(c.lines, fmt.Sprintf("(declare-fun %s () %s)", name, s))
	return Term{S: name, Sort: s}
}

// NameAlways binds any compound term to a constant (program integer values stay atoms, so that
// array indices keep the shape base+atom that quantifier triggers match).
func (c *Ctx) NameAlways(hint string, t Term) Term {
	if !strings.ContainsAny(t.S, " ") {
		return t
	}
	if v, ok := c.named[t.S]; ok {
		return v
	}
	v := c.Fresh(hint, t.Sort)
	c.lines = append(c.lines, fmt.Sprintf("(assert (= %s %s))", v.S, t.S))
	if t.Sort == SInt {
		v.lin = linOf(t) // transparent for further arithmetic (lengths and offsets keep folding)
	}
	c.named[t.S] = v
	c.defs[v.S] = t.S
	return v
}

// FreshGlobal declares a constant in the never-truncated preamble.
func (c *Ctx) FreshGlobal(hint string, s Sort) Term {
	c.n++
	name := fmt.Sprintf("%s!%d", nameClean.ReplaceAllString(hint, "_"), c.n)
	c.globals = append(c.globals, fmt.Sprintf("(declare-fun %s () %s)", name, s))
	return Term{S: name, Sort: s}
}

// Name binds t to a fresh constant (sharing).
func (c *Ctx) Name(hint string, t Term) Term {
	if len(t.S) < 24 || !strings.ContainsAny(t.S, " ") {
		return t // short terms and atoms stay themselves (an alias would hide syntactic identity)
	}
	if v, ok := c.named[t.S]; ok {
		return v
	}
	v := c.Fresh(hint, t.Sort)
	c.lines = append(c.lines, fmt.Sprintf("(assert (= %s %s))", v.S, t.S))
	c.named[t.S] = v
	c.defs[v.S] = t.S
	return v
}

func (c *Ctx) Assume(t Term) {
	if t.S == "true" {
		return
	}
	c.lines = append(c.lines, fmt.Sprintf("(assert %s)", t.S))
}

func (c *Ctx) Raw(line string) { c.lines = append(c.lines, line) }

func (c *Ctx) AddObl(o *Obligation) {
	if c.discard {
		return
	}
	o.Prefix = len(c.lines)
	o.ctx = c
	c.obls = append(c.obls, o)
}

func (c *Ctx) Note(s string) {
	if c.discard {
		return
	}
	c.notes = append(c.notes, s)
}

func (c *Ctx) Trust(s string) { c.assumed[s] = true }

type ctxSnap struct {
	lines, obls, notes int
	named              map[string]Term
}

// Snapshot/Restore bracket a dry run (loop modified-set discovery).
func (c *Ctx) Snapshot() *ctxSnap {
	s := &ctxSnap{lines: len(c.lines), obls: len(c.obls), notes: len(c.notes), named: make(map[string]Term, len(c.named))}
	for k, v := range c.named {
		s.named[k] = v
	}
	return s
}

func (c *Ctx) Restore(s *ctxSnap) {
	c.lines = c.lines[:s.lines]
	c.obls = c.obls[:s.obls]
	c.notes = c.notes[:s.notes]
	c.named = s.named
}

// ---------- solving

type solverSpec struct {
	name string
	argv func(file string, timeoutS int) []string
}

var solvers = []solverSpec{
	{"z3-new", func(f string, t int) []string { return []string{"z3-new", fmt.Sprintf("-T:%d", t), f} }},
	{"z3", func(f string, t int) []string { return []string{"z3", fmt.Sprintf("-T:%d", t), f} }},
	{"cvc5", func(f string, t int) []string {
		return []string{"cvc5", "--produce-models", fmt.Sprintf("--tlimit=%d", t*1000), f}
	}},
}

func (o *Obligation) smtText(extra []string, getValues []Term) string {
	var b bytes.Buffer
	b.WriteString("(set-option :produce-models true)\n(set-logic ALL)\n")
	b.WriteString(prelude)
	for _, l := range o.ctx.globals {
		b.WriteString(l)
		b.WriteByte('\n')
	}
	for _, l := range o.ctx.lines[:o.Prefix] {
		b.WriteString(l)
		b.WriteByte('\n')
	}
	for _, l := range extra {
		b.WriteString(l)
		b.WriteByte('\n')
	}
	if o.Cover {
		fmt.Fprintf(&b, "(assert %s)\n", o.Reach.S)
	} else {
		fmt.Fprintf(&b, "(assert %s)\n(assert (not %s))\n", o.Reach.S, o.Goal.S)
	}
	b.WriteString("(check-sat)\n")
	if len(getValues) > 0 {
		b.WriteString("(get-value (")
		for _, t := range getValues {
			b.WriteString(t.S)
			b.WriteByte(' ')
		}
		b.WriteString("))\n")
	}
	return b.String()
}

const prelude = `(define-fun wrapS ((v Int) (lo Int) (m Int)) Int (ite (and (<= lo v) (< v (+ lo m))) v (+ lo (mod (- v lo) m))))
(define-fun tdiv ((a Int) (b Int)) Int (ite (>= a 0) (div a b) (- (div (- a) b))))
(define-fun tmod ((a Int) (b Int)) Int (- a (* b (tdiv a b))))
`

var scratchDir string

func getScratch() string {
	if scratchDir == "" {
		d, err := os.MkdirTemp("/var/tmp", "gvc-")
		if err != nil {
			panic(err)
		}
		scratchDir = d
	}
	return scratchDir
}

func cleanupScratch() {
	if scratchDir != "" {
		os.RemoveAll(scratchDir)
	}
}

var fileSeq struct {
	sync.Mutex
	n int
}

// maxQueryBytes: a query larger than this is not sent to the solvers (the obligation is reported undecided): such a
// size means the contract needs restructuring (a spec function expanded too often), not more solver time.
const maxQueryBytes = 24 << 20

func writeSMT(text string) string {
	fileSeq.Lock()
	fileSeq.n++
	n := fileSeq.n
	fileSeq.Unlock()
	f := filepath.Join(getScratch(), fmt.Sprintf("q%06d.smt2", n))
	if err := os.WriteFile(f, []byte(text), 0o644); err != nil {
		panic(err)
	}
	return f
}

func runSolver(ctx context.Context, sp solverSpec, file string, timeoutS int) *SolveResult {
	argv := sp.argv(file, timeoutS)
	t0 := time.Now()
	cctx, cancel := context.WithTimeout(ctx, time.Duration(timeoutS+2)*time.Second)
	defer cancel()
	cmd := exec.CommandContext(cctx, argv[0], argv[1:]...)
	out, _ := cmd.CombinedOutput()
	ms := time.Since(t0).Milliseconds()
	s := strings.TrimSpace(string(out))
	first := s
	if i := strings.IndexByte(s, '\n'); i >= 0 {
		first = s[:i]
	}
	first = strings.TrimSpace(first)
	r := &SolveResult{Solver: sp.name, Ms: ms, Output: s, SMTFile: file}
	switch first {
	case "sat", "unsat", "unknown":
		r.Status = first
	case "timeout":
		r.Status = "timeout"
	default:
		if cctx.Err() != nil {
			r.Status = "timeout"
		} else if strings.Contains(s, "timeout") || strings.Contains(s, "interrupted") {
			r.Status = "timeout"
		} else {
			r.Status = "error"
		}
	}
	return r
}

// raceSolve runs the solvers concurrently; first definite answer wins.
func raceSolve(text string, timeoutS int, which []string) *SolveResult {
	if len(text) > maxQueryBytes {
		return &SolveResult{Solver: "none", Status: "unknown", Output: fmt.Sprintf("query of %d MiB exceeds the size cap (%d MiB): restructure the contract", len(text)>>20, maxQueryBytes>>20)}
	}
	file := writeSMT(text)
	ctx, cancel := context.WithCancel(context.Background())
	defer cancel()
	ch := make(chan *SolveResult, len(solvers))
	n := 0
	for _, sp := range solvers {
		use := len(which) == 0
		for _, w := range which {
			if w == sp.name {
				use = true
			}
		}
		if !use {
			continue
		}
		n++
		go func(sp solverSpec) { ch <- runSolver(ctx, sp, file, timeoutS) }(sp)
	}
	var best *SolveResult
	var outs []string
	for i := 0; i < n; i++ {
		r := <-ch
		outs = append(outs, fmt.Sprintf("[%s %dms] %s", r.Solver, r.Ms, firstLine(r.Output)))
		if r.Status == "sat" || r.Status == "unsat" {
			best = r
			break
		}
		if best == nil || (best.Status == "error" && r.Status != "error") {
			best = r
		}
	}
	cancel()
	if best.Status != "sat" && best.Status != "unsat" {
		best.Output = strings.Join(outs, "\n")
	}
	if best.Status == "unsat" {
		os.Remove(file) // queries are kept only for obligations that did not discharge (scratch space is limited)
	}
	return best
}

func firstLine(s string) string {
	if i := strings.IndexByte(s, '\n'); i >= 0 {
		return s[:i]
	}
	return s
}

// Solve decides one obligation. quick first tries z3-new alone briefly.
func (o *Obligation) Solve(timeoutS int) {
	var gv []Term
	for _, mv := range o.Inputs {
		gv = append(gv, mv.Term)
	}
	text := o.smtText(nil, gv)
	if o.Cover {
		// vacuity cover: only a refutation of reachability matters
		if o.Label != "some-return-reachable" {
			// a stated cover ("the import can succeed"): worth a real attempt at refuting it
			o.Result = raceSolve(text, min(8, timeoutS), nil)
			return
		}
		o.Result = raceSolve(text, 2, []string{"z3-new"})
		return
	}
	var r *SolveResult
	if o.quickOnly {
		// one part of a failed batch of speculative frames: all solvers at once, short budget
		r = raceSolve(text, min(5, timeoutS), nil)
	} else {
		r = raceSolve(text, min(3, timeoutS), []string{"z3-new"})
	}
	if r.Status != "sat" && r.Status != "unsat" && !o.quickOnly {
		r2 := raceSolve(text, timeoutS, nil)
		r2.Ms += r.Ms
		r = r2
	}
	if r.Status != "unsat" && len(o.AutoKeys) > 0 {
		// speculative loop frames: find out which ones do not hold (they are dropped and the function is verified again)
		total := r.Ms
		for i, pt := range o.Parts {
			po := *o
			po.Parts, po.AutoKeys = nil, nil
			po.Goal = pt.Goal
			po.quickOnly = true // dropping a speculative frame is always sound: no need to try hard
			po.Solve(timeoutS)
			total += po.Result.Ms
			if po.Result.Status != "unsat" {
				o.FailedAuto = append(o.FailedAuto, o.AutoKeys[i])
			}
		}
		if len(o.FailedAuto) == 0 {
			r = &SolveResult{Solver: "split", Status: "unsat"}
		}
		r.Ms = total
	} else if r.Status != "unsat" && len(o.Parts) > 1 {
		// the conjunction of the frame conditions did not discharge: decide each location class on its own
		// and report the first one that fails (all of them pass = the conjunction holds)
		total := r.Ms
		allOK := true
		for _, pt := range o.Parts {
			po := *o
			po.Parts = nil
			po.Goal = pt.Goal
			po.Solve(timeoutS)
			total += po.Result.Ms
			if po.Result.Status != "unsat" {
				allOK = false
				o.Name = strings.Replace(o.Name, "#assigns#only-declared-locations-written", "#assigns#unchanged "+pt.Label, 1)
				o.Label = "unchanged " + pt.Label
				o.Goal = pt.Goal
				r = po.Result
				break
			}
		}
		if allOK {
			r = &SolveResult{Solver: "split", Status: "unsat"}
		}
		r.Ms = total
	}
	if r.Status == "sat" && len(gv) > 0 {
		r.Model = parseGetValue(r.Output, o.Inputs)
	}
	o.Result = r
}

// parseGetValue reads "((t v) (t v) ...)" following the first line.
func parseGetValue(out string, inputs []ModelVar) map[string]string {
	m := map[string]string{}
	i := strings.IndexByte(out, '\n')
	if i < 0 {
		return m
	}
	sx, err := parseSexpr(out[i+1:])
	if err != nil || sx == nil {
		return m
	}
	for k, pair := range sx.list {
		if len(pair.list) != 2 || k >= len(inputs) {
			continue
		}
		m[inputs[k].Name] = pair.list[1].String()
	}
	return m
}

// ---------- tiny s-expression reader (for models)

type sexpr struct {
	atom string
	list []*sexpr
	isL  bool
}

func (s *sexpr) String() string {
	if !s.isL {
		return s.atom
	}
	parts := make([]string, len(s.list))
	for i, e := range s.list {
		parts[i] = e.String()
	}
	return "(" + strings.Join(parts, " ") + ")"
}

func parseSexpr(in string) (*sexpr, error) {
	pos := 0
	var parse func() (*sexpr, error)
	skip := func() {
		for pos < len(in) && (in[pos] == ' ' || in[pos] == '\n' || in[pos] == '\t' || in[pos] == '\r') {
			pos++
		}
	}
	parse = func() (*sexpr, error) {
		skip()
		if pos >= len(in) {
			return nil, fmt.Errorf("eof")
		}
		if in[pos] == '(' {
			pos++
			s := &sexpr{isL: true}
			for {
				skip()
				if pos >= len(in) {
					return nil, fmt.Errorf("eof in list")
				}
				if in[pos] == ')' {
					pos++
					return s, nil
				}
				e, err := parse()
				if err != nil {
					return nil, err
				}
				s.list = append(s.list, e)
			}
		}
		if in[pos] == '|' {
			st := pos
			pos++
			for pos < len(in) && in[pos] != '|' {
				pos++
			}
			pos++
			return &sexpr{atom: in[st:pos]}, nil
		}
		st := pos
		for pos < len(in) && !strings.ContainsRune(" \n\t\r()", rune(in[pos])) {
			pos++
		}
		return &sexpr{atom: in[st:pos]}, nil
	}
	return parse()
}

// modelInt converts a model value like "5" or "(- 5)" to int64.
func modelInt(s string) (int64, bool) {
	s = strings.TrimSpace(s)
	neg := false
	if strings.HasPrefix(s, "(-") {
		neg = true
		s = strings.TrimSpace(s[2 : len(s)-1])
	}
	var v int64
	if _, err := fmt.Sscanf(s, "%d", &v); err != nil {
		return 0, false
	}
	if neg {
		v = -v
	}
	return v, true
}

// solveAll decides obligations in parallel.
// incrementalPass: one z3 process per function context; the assumption prefix is sent once and each obligation is a
// push / check-sat / pop. Only "unsat" answers are taken from it (a proof is a proof, however it was found); everything
// else (unknown, timeout, sat, covers) goes through the stand-alone queries afterwards. This removes the process start
// and prefix parsing cost from the large majority of obligations (nil / bounds / frame conditions).
func incrementalPass(obls []*Obligation, workers int) {
	if os.Getenv("GVC_NOINC") != "" {
		return
	}
	groups := map[*Ctx][]*Obligation{}
	var order []*Ctx
	for _, o := range obls {
		if o.Cover || o.Result != nil || o.ctx == nil {
			continue
		}
		if _, ok := groups[o.ctx]; !ok {
			order = append(order, o.ctx)
		}
		groups[o.ctx] = append(groups[o.ctx], o)
	}
	// large functions are cut into contiguous chunks (each chunk replays the prefix in its own process), so that one
	// long function does not serialise the pass
	type job struct {
		c    *Ctx
		obls []*Obligation
	}
	var jobs []job
	for _, c := range order {
		g := groups[c]
		sort.SliceStable(g, func(i, j int) bool { return g[i].Prefix < g[j].Prefix })
		const chunk = 30
		for lo := 0; lo < len(g); lo += chunk {
			jobs = append(jobs, job{c, g[lo:min(lo+chunk, len(g))]})
		}
	}
	sort.SliceStable(jobs, func(i, j int) bool { return len(jobs[i].c.lines) > len(jobs[j].c.lines) })
	var wg sync.WaitGroup
	ch := make(chan job)
	for i := 0; i < workers; i++ {
		wg.Add(1)
		go func() {
			defer wg.Done()
			for j := range ch {
				incrementalGroup(j.c, j.obls)
			}
		}()
	}
	for _, j := range jobs {
		ch <- j
	}
	close(ch)
	wg.Wait()
}

func incrementalGroup(c *Ctx, obls []*Obligation) {
	sort.SliceStable(obls, func(i, j int) bool { return obls[i].Prefix < obls[j].Prefix })
	const perCheckMs = 2500
	start := func() (*exec.Cmd, io.WriteCloser, *bufio.Reader, bool) {
		cmd := exec.Command("z3-new", "-in", fmt.Sprintf("-t:%d", perCheckMs))
		in, err1 := cmd.StdinPipe()
		out, err2 := cmd.StdoutPipe()
		if err1 != nil || err2 != nil || cmd.Start() != nil {
			return nil, nil, nil, false
		}
		return cmd, in, bufio.NewReader(out), true
	}
	cmd, in, rd, ok := start()
	if !ok {
		return
	}
	defer func() {
		in.Close()
		cmd.Process.Kill()
		cmd.Wait()
	}()
	var b bytes.Buffer
	b.WriteString("(set-logic ALL)\n")
	b.WriteString(prelude)
	for _, l := range c.globals {
		b.WriteString(l)
		b.WriteByte('\n')
	}
	if _, err := in.Write(b.Bytes()); err != nil {
		return
	}
	sent := 0
	failures := 0
	for _, o := range obls {
		b.Reset()
		for sent < o.Prefix && sent < len(c.lines) {
			b.WriteString(c.lines[sent])
			b.WriteByte('\n')
			sent++
		}
		fmt.Fprintf(&b, "(push)\n(assert %s)\n(assert (not %s))\n(check-sat)\n(pop)\n", o.Reach.S, o.Goal.S)
		t0 := time.Now()
		if _, err := in.Write(b.Bytes()); err != nil {
			return
		}
		type ans struct {
			s   string
			err error
		}
		ac := make(chan ans, 1)
		go func() {
			line, err := rd.ReadString('\n')
			ac <- ans{strings.TrimSpace(line), err}
		}()
		select {
		case a := <-ac:
			if a.err != nil {
				return
			}
			if a.s == "unsat" {
				o.Result = &SolveResult{Solver: "z3-new-inc", Status: "unsat", Ms: time.Since(t0).Milliseconds()}
			} else if strings.HasPrefix(a.s, "(error") {
				return // declaration order problem or similar: leave the rest to the stand-alone queries
			} else {
				failures++
			}
		case <-time.After(time.Duration(perCheckMs+3000) * time.Millisecond):
			return // wedged: the deferred kill ends the process; the rest is decided stand-alone
		}
		if failures > 25 {
			return // this context is hard for the incremental mode: do not waste more time here
		}
	}
}

func solveAll(obls []*Obligation, timeoutS int, workers int) {
	var dyn []*Obligation
	for _, o := range obls {
		if !o.Static {
			dyn = append(dyn, o)
		}
	}
	obls = dyn
	incrementalPass(obls, workers)
	var wg sync.WaitGroup
	ch := make(chan *Obligation)
	for i := 0; i < workers; i++ {
		wg.Add(1)
		go func() {
			defer wg.Done()
			for o := range ch {
				if o.Result != nil && o.Result.Status == "unsat" && o.Result.Solver == "z3-new-inc" {
					continue // discharged by the incremental pass
				}
				o.Solve(timeoutS)
			}
		}()
	}
	// larger prefixes first (slow ones start early)
	sorted := append([]*Obligation(nil), obls...)
	sort.SliceStable(sorted, func(i, j int) bool { return sorted[i].Prefix > sorted[j].Prefix })
	for _, o := range sorted {
		ch <- o
	}
	close(ch)
	wg.Wait()
}
