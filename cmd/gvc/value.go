package main

// Values, type layouts and the Burstall-Bornat heap.

import (
	"fmt"
	"go/types"
	"math/big"
	"sort"
	"strings"

	"golang.org/x/tools/go/ssa"
)

// Comp is one scalar SMT component of a flattened Go type.
type Comp struct {
	Path string
	Sort Sort
	Kind string // int:<lo>:<hi>, bool, ref, slice.ref, slice.off, slice.len, slice.cap, str.arr, str.off, str.len, if.tag, if.val, opaque, arr
	Lo   *big.Int
	Hi   *big.Int
}

type PathEl struct {
	Field int  // field index, or -1
	Index Term // array index when Field == -1
}

// Ptr is an engine-level pointer to a location.
type Ptr struct {
	Local  *ssa.Alloc  // local cell (non-escaping)
	Global *ssa.Global // package-level variable
	Heap   Term        // heap object reference (when Local, Global nil)
	RootT  types.Type  // type of the root object
	Elem   bool        // root is a slice/array element: memory key M:<RootT>, index Idx
	Idx    Term
	Path   []PathEl
}

// Value is a flattened Go value (or a spec-level value when T == nil).
type Value struct {
	T   types.Type
	C   []Term
	P   *Ptr // engine-level pointer overlay (T is a pointer type)
	Seq *SeqV
	SK  string // spec kind when T == nil: int, bool, seq, ref
}

// SeqV is a meta-level sequence: length plus element function.
type SeqV struct {
	Len Term
	At  func(i Term) Term
	// when the sequence is (a view of) a normalised array pair
	Arr  Term // optional: materialised normalised array
	HasA bool
	// when the sequence is a window of an array: element i is Row[Off+i]
	Row    Term
	Off    Term
	HasRow bool
	// a two-way merge of sequences (kept symbolic so that each branch materialises on its own)
	IteC Term
	IteA *SeqV
	IteB *SeqV
}

func rowSeq(row, off, ln Term) *SeqV {
	return &SeqV{Len: ln, Row: row, Off: off, HasRow: true, At: func(i Term) Term { return Select(row, Add(off, i)) }}
}

func arrSeq(arr, ln Term) *SeqV {
	return &SeqV{Len: ln, Arr: arr, HasA: true, Row: arr, Off: IntLit(0), HasRow: true, At: func(i Term) Term { return Select(arr, i) }}
}

type contentRec struct {
	off, ln Term
	seq     *SeqV
}

// ghostRec: symbolic value of a ghost sequence field of one object, valid while the heap component is unchanged.
type ghostRec struct {
	heapTerm string
	seq      *SeqV
}

type State struct {
	gcontent map[string]*ghostRec // heap key of the ghost array component + "|" + object reference
	content map[string]*contentRec // symbolic contents of byte slices built by append / returned by contracts
	heap   map[string]Term
	base   map[string]Term // lazily created defaults (shared by clones); replaced on havoc-all
	locals map[ssa.Value]*Value
	alloc  Term
	havocked bool // the heap was havocked as a whole since function entry (defaults created now are not pre-state values)
}

func (s *State) Clone() *State {
	n := &State{heap: make(map[string]Term, len(s.heap)), base: s.base, locals: make(map[ssa.Value]*Value, len(s.locals)), alloc: s.alloc, havocked: s.havocked}
	for k, v := range s.heap {
		n.heap[k] = v
	}
	for k, v := range s.locals {
		n.locals[k] = v
	}
	if len(s.gcontent) > 0 {
		n.gcontent = make(map[string]*ghostRec, len(s.gcontent))
		for k, v := range s.gcontent {
			n.gcontent[k] = v
		}
	}
	if len(s.content) > 0 {
		n.content = make(map[string]*contentRec, len(s.content))
		for k, v := range s.content {
			n.content[k] = v
		}
	}
	return n
}

// ---------- layouts

type Engine struct {
	prog       *ssa.Program
	layouts    map[string][]Comp
	heapSorts  map[string]Sort
	heapComps  map[string]Comp
	typeIDs    map[string]int
	typeByID   []types.Type
	contracts  map[string]*FuncContract // full key (pkgpath + "." + key  or RelString(nil)) -> contract
	specs      map[string]*SpecFunc
	axioms     []*Axiom
	fnByKey    map[string]*ssa.Function
	repoPrefix string
	files      []*ContractFile
	bufT       types.Type
	pkgInvs    map[string][]Clause
	implCache  map[string]map[string]bool
	disabledFrames map[string]bool
	funcIDs    map[*ssa.Function]int
	funcByID   map[int]*ssa.Function
	ghostFields map[string][]GhostField // "pkgpath.Type" -> ghost fields
	guards      map[string]map[string]*GuardDecl // "pkgpath.Type" -> field -> lock discipline
	guardDecls  map[string][]*GuardDecl          // package path -> declarations
	exclusive   map[string]map[string]*GuardDecl // "pkgpath.Type" -> field -> every access needs the exclusive hold
	knownFailing map[string]bool       // obligation names listed as known findings: never assumed at call sites
}

func typeKey(t types.Type) string { return types.TypeString(types.Unalias(t), nil) }

var ghostLayouts = map[string][]Comp{
	"math/big.Int":         {{Path: "val", Sort: SInt, Kind: "ghost"}},
	"bytes.Buffer":         {{Path: "arr", Sort: SArr, Kind: "bytearr"}, {Path: "off", Sort: SInt, Kind: "ghostlen"}, {Path: "len", Sort: SInt, Kind: "ghostlen"}},
	"bytes.Reader":         {{Path: "arr", Sort: SArr, Kind: "bytearr"}, {Path: "off", Sort: SInt, Kind: "ghostlen"}, {Path: "len", Sort: SInt, Kind: "ghostlen"}},
	"sync.Mutex":           {{Path: "held", Sort: SBool, Kind: "ghost"}},
	"sync.RWMutex":         {{Path: "held", Sort: SBool, Kind: "ghost"}, {Path: "rheld", Sort: SBool, Kind: "ghost"}},
	"sync.Once":            {{Path: "done", Sort: SBool, Kind: "ghost"}},
	"time.Time":            {{Path: "t", Sort: SInt, Kind: "ghost"}},
	"strings.Builder":      {{Path: "arr", Sort: SArr, Kind: "bytearr"}, {Path: "off", Sort: SInt, Kind: "ghostlen"}, {Path: "len", Sort: SInt, Kind: "ghostlen"}},
	"log/slog.Logger":      {{Path: "x", Sort: SInt, Kind: "ghost"}},
	"reflect.Value":        {{Path: "x", Sort: SInt, Kind: "ghost"}},
	"sync.WaitGroup":       {{Path: "x", Sort: SInt, Kind: "ghost"}},
	"crypto/rsa.PublicKey": nil,
}

func intRange(b *types.Basic) (*big.Int, *big.Int, bool) {
	switch b.Kind() {
	case types.Int, types.Int64:
		return new(big.Int).Neg(pow2(63)), new(big.Int).Sub(pow2(63), big.NewInt(1)), true
	case types.Int8:
		return big.NewInt(-128), big.NewInt(127), true
	case types.Int16:
		return big.NewInt(-32768), big.NewInt(32767), true
	case types.Int32:
		return big.NewInt(-(1 << 31)), big.NewInt(1<<31 - 1), true
	case types.Uint, types.Uint64, types.Uintptr:
		return big.NewInt(0), new(big.Int).Sub(pow2(64), big.NewInt(1)), true
	case types.Uint8:
		return big.NewInt(0), big.NewInt(255), true
	case types.Uint16:
		return big.NewInt(0), big.NewInt(65535), true
	case types.Uint32:
		return big.NewInt(0), big.NewInt(1<<32 - 1), true
	case types.UntypedInt, types.UntypedRune:
		return new(big.Int).Neg(pow2(63)), new(big.Int).Sub(pow2(63), big.NewInt(1)), true
	}
	return nil, nil, false
}

func (e *Engine) layout(t types.Type) []Comp {
	t = types.Unalias(t)
	k := typeKey(t)
	if l, ok := e.layouts[k]; ok {
		return l
	}
	e.layouts[k] = []Comp{{Path: "rec", Sort: SInt, Kind: "opaque"}} // recursion guard
	l := e.layout0(t)
	e.layouts[k] = l
	return l
}

func (e *Engine) layout0(t types.Type) []Comp {
	if n, ok := t.(*types.Named); ok {
		name := n.Obj().Name()
		if n.Obj().Pkg() != nil {
			name = n.Obj().Pkg().Path() + "." + name
		}
		if g, ok := ghostLayouts[name]; ok && g != nil {
			return g
		}
		if gfs := e.ghostFields[name]; len(gfs) > 0 {
			if _, isS := n.Underlying().(*types.Struct); isS {
				out := append([]Comp(nil), e.layout1(n.Underlying())...)
				for _, gf := range gfs {
					switch gf.Sort {
					case "seq":
						out = append(out, Comp{Path: "$" + gf.Name + ".arr", Sort: SArr, Kind: "gseq.arr"}, Comp{Path: "$" + gf.Name + ".len", Sort: SInt, Kind: "ghostlen"})
					case "bool":
						out = append(out, Comp{Path: "$" + gf.Name, Sort: SBool, Kind: "ghost"})
					default:
						out = append(out, Comp{Path: "$" + gf.Name, Sort: SInt, Kind: "ghost"})
					}
				}
				return out
			}
		}
	}
	return e.layout1(t)
}

// ghostField finds a declared ghost field of a (pointer to a) named struct: component offset, count, sort.
func (e *Engine) ghostField(t types.Type, name string) (int, int, string, bool) {
	t = types.Unalias(derefT(types.Unalias(t)))
	n, ok := t.(*types.Named)
	if !ok || n.Obj().Pkg() == nil {
		return 0, 0, "", false
	}
	for _, gf := range e.ghostFields[n.Obj().Pkg().Path()+"."+n.Obj().Name()] {
		if gf.Name != name {
			continue
		}
		for j, c := range e.layout(t) {
			if c.Path == "$"+name || c.Path == "$"+name+".arr" {
				cnt := 1
				if gf.Sort == "seq" {
					cnt = 2
				}
				return j, cnt, gf.Sort, true
			}
		}
	}
	return 0, 0, "", false
}

func (e *Engine) layout1(t types.Type) []Comp {
	if a, ok := t.(*types.Alias); ok {
		return e.layout(types.Unalias(a))
	}
	switch u := t.Underlying().(type) {
	case *types.Basic:
		if u.Info()&types.IsBoolean != 0 {
			return []Comp{{Sort: SBool, Kind: "bool"}}
		}
		if lo, hi, ok := intRange(u); ok {
			return []Comp{{Sort: SInt, Kind: "int", Lo: lo, Hi: hi}}
		}
		if u.Info()&types.IsString != 0 {
			return []Comp{{Path: "arr", Sort: SArr, Kind: "str.arr"}, {Path: "off", Sort: SInt, Kind: "str.off"}, {Path: "len", Sort: SInt, Kind: "str.len"}}
		}
		if u.Kind() == types.UntypedNil {
			return []Comp{{Sort: SInt, Kind: "ref"}}
		}
		return []Comp{{Sort: SInt, Kind: "opaque"}} // floats, complex, unsafe.Pointer
	case *types.Pointer:
		return []Comp{{Sort: SInt, Kind: "ref"}}
	case *types.Map, *types.Chan, *types.Signature:
		return []Comp{{Sort: SInt, Kind: "ref"}}
	case *types.Slice:
		return []Comp{{Path: "ref", Sort: SInt, Kind: "slice.ref"}, {Path: "off", Sort: SInt, Kind: "slice.off"}, {Path: "len", Sort: SInt, Kind: "slice.len"}, {Path: "cap", Sort: SInt, Kind: "slice.cap"}}
	case *types.Interface:
		return []Comp{{Path: "tag", Sort: SInt, Kind: "if.tag"}, {Path: "val", Sort: SInt, Kind: "if.val"}}
	case *types.Struct:
		var out []Comp
		for i := 0; i < u.NumFields(); i++ {
			f := u.Field(i)
			for _, c := range e.layout(f.Type()) {
				c2 := c
				if c.Path == "" {
					c2.Path = f.Name()
				} else {
					c2.Path = f.Name() + "." + c.Path
				}
				out = append(out, c2)
			}
		}
		if len(out) == 0 {
			out = []Comp{{Path: "_", Sort: SInt, Kind: "opaque"}}
		}
		return out
	case *types.Array:
		var out []Comp
		for _, c := range e.layout(u.Elem()) {
			out = append(out, Comp{Path: "[]" + c.Path, Sort: ArrOf(c.Sort), Kind: "arr"})
		}
		return out
	case *types.Tuple:
		var out []Comp
		for i := 0; i < u.Len(); i++ {
			for _, c := range e.layout(u.At(i).Type()) {
				c2 := c
				c2.Path = fmt.Sprintf("%d.%s", i, c.Path)
				out = append(out, c2)
			}
		}
		return out
	case *types.TypeParam:
		return []Comp{{Sort: SInt, Kind: "opaque"}}
	}
	return []Comp{{Sort: SInt, Kind: "opaque"}}
}

// fieldRange returns the comp range of field i in struct type st.
func (e *Engine) fieldRange(st *types.Struct, i int) (int, int) {
	off := 0
	for j := 0; j < i; j++ {
		off += len(e.layout(st.Field(j).Type()))
	}
	n := len(e.layout(st.Field(i).Type()))
	if st.NumFields() == 0 {
		return 0, 0
	}
	return off, n
}

func isGhostType(t types.Type) bool {
	if n, ok := t.(*types.Named); ok && n.Obj().Pkg() != nil {
		g, ok := ghostLayouts[n.Obj().Pkg().Path()+"."+n.Obj().Name()]
		return ok && g != nil
	}
	return false
}

func (e *Engine) typeID(t types.Type) int {
	k := typeKey(t)
	if id, ok := e.typeIDs[k]; ok {
		return id
	}
	id := len(e.typeIDs) + 1
	e.typeIDs[k] = id
	e.typeByID = append(e.typeByID, t)
	return id
}

// ---------- values

func (e *Engine) zeroValue(t types.Type) *Value {
	l := e.layout(t)
	v := &Value{T: t, C: make([]Term, len(l))}
	for i, c := range l {
		v.C[i] = zeroOf(c.Sort)
	}
	return v
}

func (e *Engine) freshValue(c *Ctx, hint string, t types.Type) *Value {
	l := e.layout(t)
	v := &Value{T: t, C: make([]Term, len(l))}
	for i, cp := range l {
		h := hint
		if cp.Path != "" {
			h = hint + "." + cp.Path
		}
		v.C[i] = c.Fresh(h, cp.Sort)
	}
	return v
}

// typeInv gives the representation invariant of a flattened value.
func (e *Engine) typeInv(v *Value, alloc Term) Term {
	if v.T == nil {
		return TTrue
	}
	l := e.layout(v.T)
	var cs []Term
	for i, c := range l {
		if i >= len(v.C) {
			break
		}
		x := v.C[i]
		switch c.Kind {
		case "int":
			cs = append(cs, Le(BigLit(c.Lo), x), Le(x, BigLit(c.Hi)))
		case "ref":
			cs = append(cs, Le(IntLit(0), x), Lt(x, alloc))
		case "slice.ref":
			// ref, off, len, cap are consecutive
			off, ln, cp := v.C[i+1], v.C[i+2], v.C[i+3]
			cs = append(cs, Le(IntLit(0), x), Lt(x, alloc), Le(IntLit(0), off), Le(IntLit(0), ln), Le(ln, cp),
				Le(cp, BigLit(pow2(40))), Le(off, BigLit(pow2(40))),
				Implies(Eq(x, IntLit(0)), And(Eq(cp, IntLit(0)), Eq(off, IntLit(0)))))
		case "str.off":
			cs = append(cs, Le(IntLit(0), x), Le(x, BigLit(pow2(40))))
		case "str.len":
			cs = append(cs, Le(IntLit(0), x), Le(x, BigLit(pow2(40))))
		case "if.tag":
			cs = append(cs, Le(IntLit(0), x), Implies(Eq(x, IntLit(0)), Eq(v.C[i+1], IntLit(0))))
		case "if.val":
			cs = append(cs, Le(IntLit(0), x), Lt(x, alloc))
		case "ghostlen":
			cs = append(cs, Le(IntLit(0), x))
		}
	}
	return And(cs...)
}

func (e *Engine) sub(v *Value, off, n int, t types.Type) *Value {
	return &Value{T: t, C: append([]Term(nil), v.C[off:off+n]...)}
}

func mkInt(t Term) *Value  { return &Value{SK: "int", C: []Term{t}} }
func mkBool(t Term) *Value { return &Value{SK: "bool", C: []Term{t}} }

func (v *Value) term() Term {
	if len(v.C) != 1 {
		panic(fmt.Sprintf("term() of %d-component value of type %v", len(v.C), v.T))
	}
	return v.C[0]
}

func isSlice(t types.Type) bool {
	if t == nil {
		return false
	}
	_, ok := t.Underlying().(*types.Slice)
	return ok
}
func isString(t types.Type) bool {
	if t == nil {
		return false
	}
	b, ok := t.Underlying().(*types.Basic)
	return ok && b.Info()&types.IsString != 0
}
func isIface(t types.Type) bool {
	if t == nil {
		return false
	}
	_, ok := t.Underlying().(*types.Interface)
	return ok
}
func isPointer(t types.Type) bool {
	if t == nil {
		return false
	}
	_, ok := t.Underlying().(*types.Pointer)
	return ok
}
func isBoolT(t types.Type) bool {
	if t == nil {
		return false
	}
	b, ok := t.Underlying().(*types.Basic)
	return ok && b.Info()&types.IsBoolean != 0
}
func isIntT(t types.Type) bool {
	if t == nil {
		return false
	}
	b, ok := t.Underlying().(*types.Basic)
	return ok && b.Info()&types.IsInteger != 0
}
func derefT(t types.Type) types.Type {
	if p, ok := t.Underlying().(*types.Pointer); ok {
		return p.Elem()
	}
	return t
}

// ---------- heap access

func (e *Engine) heapKey(kind string, t types.Type, j int) (string, Sort) {
	l := e.layout(t)
	if j >= len(l) {
		panic(unsupported{fmt.Sprintf("heap access to component %d of %s (layout has %d)", j, typeKey(t), len(l))})
	}
	tk := typeKey(t)
	if tk == "bytes.Reader" {
		tk = "bytes.Buffer" // one ghost stream memory for readers and buffers (io.Reader values point into it)
	}
	k := fmt.Sprintf("%s:%s#%d", kind, tk, j)
	var s Sort
	if kind == "M" {
		s = ArrOf(ArrOf(l[j].Sort))
	} else {
		s = ArrOf(l[j].Sort)
	}
	e.heapSorts[k] = s
	e.heapComps[k] = l[j]
	return k, s
}

// rangeAxiom states that every cell of a heap array of a bounded integer
// component is within the range of its Go type (memory invariant).
func (e *Engine) rangeAxiom(key string, t Term) Term {
	cp, ok := e.heapComps[key]
	if ok && cp.Kind == "bytearr" && t.Sort == ArrOf(SArr) {
		r := Term{S: "r$x", Sort: SInt}
		i := Term{S: "i$x", Sort: SInt}
		cell := Select(Select(t, r), i)
		return Forall([]Term{r, i}, And(Le(IntLit(0), cell), Le(cell, IntLit(255))), cell)
	}
	if !ok || cp.Kind != "int" || cp.Lo == nil {
		return TTrue
	}
	r := Term{S: "r$x", Sort: SInt}
	i := Term{S: "i$x", Sort: SInt}
	switch t.Sort {
	case ArrOf(SInt):
		cell := Select(t, r)
		return Forall([]Term{r}, And(Le(BigLit(cp.Lo), cell), Le(cell, BigLit(cp.Hi))), cell)
	case ArrOf(ArrOf(SInt)):
		cell := Select(Select(t, r), i)
		return Forall([]Term{r, i}, And(Le(BigLit(cp.Lo), cell), Le(cell, BigLit(cp.Hi))), cell)
	}
	return TTrue
}

// rowRangeAxiom is the same for a single row (Int -> Int) of element memory.
func (e *Engine) rowRangeAxiom(key string, row Term) Term {
	cp, ok := e.heapComps[key]
	if !ok || cp.Kind != "int" || cp.Lo == nil || row.Sort != ArrOf(SInt) {
		return TTrue
	}
	i := Term{S: "i$x", Sort: SInt}
	cell := Select(row, i)
	return Forall([]Term{i}, And(Le(BigLit(cp.Lo), cell), Le(cell, BigLit(cp.Hi))), cell)
}

type Exec struct {
	eng      *Engine
	proxies  []proxyRec // stand-in objects of embedded structs whose address was stored in memory
	ctx      *Ctx
	initHeap map[string]Term
	writeLog map[string]bool
	lwLog    map[ssa.Value]bool
	wildLog  map[string]bool
	refLog   map[string]map[string]Term
	logging  bool
	cur      *checkEnv
	pendingAx []*Axiom
	releasing bool
	ufApps   map[string][][]Term
	matSeq   map[string]*SeqV
	iteDefs  map[string][3]Term // merged constant -> (cond, then, else)
	closures map[*ssa.MakeClosure]bool
	stack    []*ssa.Function
	entryAlloc Term // allocation counter at function entry
}

func (x *Exec) heapGet(st *State, key string) Term {
	if t, ok := st.heap[key]; ok {
		return t
	}
	if t, ok := st.base[key]; ok {
		return t
	}
	srt, ok := x.eng.heapSorts[key]
	if !ok {
		panic("heap key without sort: " + key)
	}
	if x.cur != nil && x.cur.fc != nil && x.cur.fc.PkgInit && strings.HasPrefix(key, "G:") {
		// package initialisation starts from zeroed package-level variables
		st.base[key] = zeroOf(srt)
		return st.base[key]
	}
	t := x.ctx.FreshGlobal("H0_"+shortKey(key), srt)
	if ax := x.eng.rangeAxiom(key, t); ax.S != "true" {
		x.ctx.globals = append(x.ctx.globals, "(assert "+ax.S+")")
	}
	// heap typing of the pre-state: every reference stored in the initial heap denotes nil or an object that existed
	// at function entry (a Go heap never holds a pointer to an object that has not been allocated yet)
	if cp, ok := x.eng.heapComps[key]; ok && (cp.Kind == "ref" || cp.Kind == "slice.ref") && x.entryAlloc.S != "" && !st.havocked {
		r := Term{S: "r$y", Sort: SInt}
		i := Term{S: "i$y", Sort: SInt}
		switch srt {
		case ArrOf(SInt):
			cell := Select(t, r)
			x.ctx.globals = append(x.ctx.globals, "(assert "+Forall([]Term{r}, And(Le(IntLit(0), cell), Lt(cell, x.entryAlloc)), cell).S+")")
		case ArrOf(ArrOf(SInt)):
			cell := Select(Select(t, r), i)
			x.ctx.globals = append(x.ctx.globals, "(assert "+Forall([]Term{r, i}, And(Le(IntLit(0), cell), Lt(cell, x.entryAlloc)), cell).S+")")
		}
	}
	st.base[key] = t
	return t
}

func shortKey(k string) string {
	if i := strings.LastIndex(k, "/"); i >= 0 {
		return k[:2] + k[i+1:]
	}
	return k
}

// invalidateContent drops content records that a write through ref w may affect.
func (x *Exec) invalidateContent(st *State, w Term) {
	if len(st.content) == 0 {
		return
	}
	wb, wFresh := x.ctx.birth[w.S]
	for r := range st.content {
		rb, rFresh := x.ctx.birth[r]
		switch {
		case r == w.S:
			delete(st.content, r)
		case rFresh && wFresh && rb != wb:
			// two different fresh objects
		case rFresh && !wFresh && maxIndex(w.S) < rb:
			// w existed before r was born
			if _, isIte := x.minBirth(w.S, 0); isIte && x.mayDenote(w.S, r, 0) {
				delete(st.content, r)
			}
		default:
			delete(st.content, r)
		}
	}
}

// mayDenote: can the reference term (possibly a choice) denote the fresh reference r?
func (x *Exec) mayDenote(ref string, r string, depth int) bool {
	if ref == r {
		return true
	}
	if depth > 4 {
		return true
	}
	def := ref
	if d, ok := x.ctx.defs[ref]; ok {
		def = d
	}
	if a := splitApp(def, "ite"); len(a) == 3 {
		return x.mayDenote(a[1], r, depth+1) || x.mayDenote(a[2], r, depth+1)
	}
	if _, ok := x.ctx.birth[ref]; ok {
		return false
	}
	return ref != "0"
}

func (x *Exec) heapSet(st *State, key string, t Term) {
	if strings.HasPrefix(key, "M:") {
		st.content = nil
	}
	st.heap[key] = t
	if x.logging {
		x.writeLog[key] = true
		x.wildLog[key] = true // written at an unknown reference
	}
}

// heapSetAt records a write to one known object reference.
func (x *Exec) heapSetAt(st *State, key string, t Term, ref Term) {
	if strings.HasPrefix(key, "M:") {
		x.invalidateContent(st, ref)
	}
	st.heap[key] = t
	if x.logging {
		x.writeLog[key] = true
		if x.refLog[key] == nil {
			x.refLog[key] = map[string]Term{}
		}
		x.refLog[key][ref.S] = ref
	}
}

// heapSetFresh records a change that leaves all previously allocated objects alone.
func (x *Exec) heapSetFresh(st *State, key string, t Term) {
	st.heap[key] = t
	if x.logging {
		x.writeLog[key] = true
	}
}

func (x *Exec) setLocal(st *State, a ssa.Value, v *Value) {
	st.locals[a] = v
	if x.logging {
		x.lwLog[a] = true
	}
}

func (x *Exec) setAlloc(st *State, t Term) {
	st.alloc = t
	if x.logging {
		x.writeLog["$alloc"] = true
	}
}

// newRef allocates a fresh reference.
func (x *Exec) newRef(st *State, hint string) Term {
	// a fresh reference is a named constant: its index in the name is its time of birth
	r := x.ctx.Fresh(hint, SInt)
	x.ctx.Assume(Eq(r, st.alloc))
	x.ctx.birth[r.S] = x.ctx.n
	x.setAlloc(st, x.ctx.Name("alloc", Add(r, IntLit(1))))
	return r
}

// splitApp splits "(op a b c)" into its top-level arguments.
func splitApp(s string, op string) []string {
	pre := "(" + op + " "
	if !strings.HasPrefix(s, pre) || !strings.HasSuffix(s, ")") {
		return nil
	}
	body := s[len(pre) : len(s)-1]
	var out []string
	depth, st := 0, 0
	for i := 0; i < len(body); i++ {
		switch body[i] {
		case '(':
			depth++
		case ')':
			depth--
		case ' ':
			if depth == 0 {
				out = append(out, body[st:i])
				st = i + 1
			}
		}
	}
	return append(out, body[st:])
}

func maxIndex(s string) int {
	m := 0
	for i := 0; i < len(s); i++ {
		if s[i] == '!' {
			j, n := i+1, 0
			for j < len(s) && s[j] >= '0' && s[j] <= '9' {
				n = n*10 + int(s[j]-'0')
				j++
			}
			if n > m {
				m = n
			}
			i = j
		}
	}
	return m
}

// minBirth: the earliest possible time of birth of the object a reference term denotes,
// when the term is a fresh reference, nil, or a choice between such terms.
func (x *Exec) minBirth(ref string, depth int) (int, bool) {
	if b, ok := x.ctx.birth[ref]; ok {
		return b, true
	}
	if ref == "0" {
		return 1 << 30, true // nil: no backing object at all
	}
	if depth > 4 {
		return 0, false
	}
	def := ref
	if d, ok := x.ctx.defs[ref]; ok {
		def = d
	}
	if a := splitApp(def, "ite"); len(a) == 3 {
		b1, ok1 := x.minBirth(a[1], depth+1)
		b2, ok2 := x.minBirth(a[2], depth+1)
		if ok1 && ok2 {
			return min(b1, b2), true
		}
	}
	return 0, false
}

// rowOf reads the backing row of ref in element memory M, looking through stores to objects
// that were born after every symbol of ref existed (they cannot be the same object).
func (x *Exec) rowOf(M Term, ref Term) Term {
	if strings.Contains(ref.S, "$") {
		return Select(M, ref) // depends on a bound variable: cannot be bound to a constant
	}
	base := x.skipStores(M.S, maxIndex(ref.S), 0)
	return x.ctx.Name("row", Select(Term{S: base, Sort: M.Sort}, ref))
}

// skipStores strips stores to objects born after `older` and merges of memories that agree.
func (x *Exec) skipStores(cur string, older int, depth int) string {
	for i := 0; i < 64; i++ {
		def := cur
		if d, ok := x.ctx.defs[cur]; ok {
			def = d
		}
		if fm, ok := x.ctx.frameMem[cur]; ok && older < fm.stamp {
			// memory after a call with a frame: objects that existed before the call are unchanged
			cur = fm.old
			continue
		}
		if a := splitApp(def, "store"); len(a) == 3 {
			b, ok := x.minBirth(a[1], 0)
			if !ok || older >= b {
				return cur
			}
			cur = a[0]
			continue
		}
		if a := splitApp(def, "ite"); len(a) == 3 && depth < 6 {
			l := x.skipStores(a[1], older, depth+1)
			r := x.skipStores(a[2], older, depth+1)
			if l == r {
				cur = l
				continue
			}
		}
		return cur
	}
	return cur
}

// resolve a pointer: returns the type of the addressed location and accessors.
func (x *Exec) locType(p *Ptr) types.Type {
	t := p.RootT
	for _, pe := range p.Path {
		if pe.Field >= 0 {
			st := t.Underlying().(*types.Struct)
			t = st.Field(pe.Field).Type()
		} else {
			t = t.Underlying().(*types.Array).Elem()
		}
	}
	return t
}

// compRange walks the path; returns offset, count in root layout and the index stack.
func (x *Exec) compRange(p *Ptr) (int, int, []Term) {
	e := x.eng
	t := p.RootT
	off := 0
	var idx []Term
	for _, pe := range p.Path {
		if pe.Field >= 0 {
			st := t.Underlying().(*types.Struct)
			o, _ := e.fieldRange(st, pe.Field)
			off += o
			t = st.Field(pe.Field).Type()
		} else {
			idx = append(idx, pe.Index)
			t = t.Underlying().(*types.Array).Elem()
		}
	}
	return off, len(e.layout(t)), idx
}

func selN(t Term, idx []Term) Term {
	for _, i := range idx {
		t = Select(t, i)
	}
	return t
}

func storeN(t Term, idx []Term, v Term) Term {
	if len(idx) == 0 {
		return v
	}
	return Store(t, idx[0], storeN(Select(t, idx[0]), idx[1:], v))
}

// Load reads the location p in state st.
func (x *Exec) Load(st *State, p *Ptr) *Value {
	e := x.eng
	p = x.normPtr(p)
	off, n, idx := x.compRange(p)
	lt := x.locType(p)
	out := &Value{T: lt, C: make([]Term, n)}
	switch {
	case p.Local != nil:
		cell := st.locals[p.Local]
		if cell == nil {
			cell = e.zeroValue(p.RootT)
		}
		if cell.P != nil && len(p.Path) == 0 {
			return cell
		}
		for j := 0; j < n; j++ {
			out.C[j] = selN(cell.C[off+j], idx)
		}
	case p.Global != nil:
		for j := 0; j < n; j++ {
			key := fmt.Sprintf("G:%s#%d", p.Global.RelString(nil), off+j)
			e.heapSorts[key] = e.layout(p.RootT)[off+j].Sort
			out.C[j] = selN(x.heapGet(st, key), idx)
			if cp := e.layout(p.RootT)[off+j]; cp.Kind == "int" && len(idx) == 0 {
				x.ctx.Assume(And(Le(BigLit(cp.Lo), out.C[j]), Le(out.C[j], BigLit(cp.Hi))))
			}
		}
	case p.Elem:
		for j := 0; j < n; j++ {
			key, _ := e.heapKey("M", p.RootT, off+j)
			out.C[j] = selN(Select(Select(x.heapGet(st, key), p.Heap), p.Idx), idx)
		}
	default:
		if at, ok := p.RootT.Underlying().(*types.Array); ok && !isGhostType(p.RootT) {
			// whole heap array object: rows of the element memory
			for j := 0; j < n; j++ {
				key, _ := e.heapKey("M", at.Elem(), j)
				out.C[j] = Select(x.heapGet(st, key), p.Heap)
			}
			return out
		}
		for j := 0; j < n; j++ {
			key, _ := e.heapKey("H", p.RootT, off+j)
			out.C[j] = selN(x.selectObj(x.heapGet(st, key), p.Heap), idx)
		}
	}
	return out
}

// selectObj reads the object at ref in a heap component, looking through stores to objects that were
// born after every symbol of ref existed (they cannot be the same object).
func (x *Exec) selectObj(h Term, ref Term) Term {
	base := x.skipStores(h.S, maxIndex(ref.S), 0)
	def := base
	if d, ok := x.ctx.defs[base]; ok {
		def = d
	}
	if a := splitApp(def, "store"); len(a) == 3 && a[1] == ref.S && !strings.ContainsAny(a[2], " ") {
		// the object was just written with an atomic value: read it back
		return Term{S: a[2], Sort: ElemSort(h.Sort)}
	}
	return Select(Term{S: base, Sort: h.Sort}, ref)
}

// normPtr rewrites a pointer into a heap array object (*[N]T with an index
// path) as an element pointer into the slice memory of T, so that slices made
// from the array alias it.
func (x *Exec) normPtr(p *Ptr) *Ptr {
	if p.Local != nil || p.Global != nil || p.Elem || len(p.Path) == 0 {
		return p
	}
	at, ok := p.RootT.Underlying().(*types.Array)
	if !ok || isGhostType(p.RootT) || p.Path[0].Field >= 0 {
		return p
	}
	return &Ptr{Heap: p.Heap, Elem: true, RootT: at.Elem(), Idx: p.Path[0].Index, Path: p.Path[1:]}
}

// Store writes v to location p.
func (x *Exec) Store(st *State, p *Ptr, v *Value) {
	e := x.eng
	p = x.normPtr(p)
	off, n, idx := x.compRange(p)
	if len(v.C) != n {
		panic(fmt.Sprintf("store arity mismatch: %d vs %d (type %v into %v)", len(v.C), n, v.T, x.locType(p)))
	}
	switch {
	case p.Local != nil:
		if len(p.Path) == 0 {
			x.setLocal(st, p.Local, v)
			return
		}
		cell := st.locals[p.Local]
		if cell == nil {
			cell = e.zeroValue(p.RootT)
		}
		nc := &Value{T: cell.T, C: append([]Term(nil), cell.C...)}
		for j := 0; j < n; j++ {
			nc.C[off+j] = storeN(cell.C[off+j], idx, v.C[j])
		}
		x.setLocal(st, p.Local, nc)
	case p.Global != nil:
		for j := 0; j < n; j++ {
			key := fmt.Sprintf("G:%s#%d", p.Global.RelString(nil), off+j)
			e.heapSorts[key] = e.layout(p.RootT)[off+j].Sort
			x.heapSet(st, key, storeN(x.heapGet(st, key), idx, v.C[j]))
		}
	case p.Elem:
		for j := 0; j < n; j++ {
			key, _ := e.heapKey("M", p.RootT, off+j)
			h := x.heapGet(st, key)
			row := Select(h, p.Heap)
			cellv := storeN(Select(row, p.Idx), idx, v.C[j])
			x.heapSetAt(st, key, x.ctx.Name("M", Store(h, p.Heap, Store(row, p.Idx, cellv))), p.Heap)
		}
	default:
		if at, ok := p.RootT.Underlying().(*types.Array); ok && !isGhostType(p.RootT) {
			for j := 0; j < n; j++ {
				key, _ := e.heapKey("M", at.Elem(), j)
				x.heapSetAt(st, key, x.ctx.Name("M", Store(x.heapGet(st, key), p.Heap, v.C[j])), p.Heap)
			}
			return
		}
		for j := 0; j < n; j++ {
			key, _ := e.heapKey("H", p.RootT, off+j)
			h := x.heapGet(st, key)
			x.heapSetAt(st, key, x.ctx.Name("H", Store(h, p.Heap, storeN(Select(h, p.Heap), idx, v.C[j]))), p.Heap)
		}
	}
}

// ptrOf converts a pointer-typed value to an engine pointer.
func (x *Exec) ptrOf(v *Value) *Ptr {
	if v.P != nil {
		return v.P
	}
	pt, ok := v.T.Underlying().(*types.Pointer)
	if !ok {
		panic(fmt.Sprintf("ptrOf non-pointer %v", v.T))
	}
	el := pt.Elem()
	if at, ok := el.Underlying().(*types.Array); ok && !isGhostType(el) {
		// pointer to array object: contents live in slice memory of the element type
		_ = at
		return &Ptr{Heap: v.C[0], RootT: el}
	}
	return &Ptr{Heap: v.C[0], RootT: el}
}

func sortedKeys[V any](m map[string]V) []string {
	ks := make([]string, 0, len(m))
	for k := range m {
		ks = append(ks, k)
	}
	sort.Strings(ks)
	return ks
}
