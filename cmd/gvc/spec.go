package main

// Evaluation of contract expressions to SMT terms over a program state.

import (
	"os"
	"fmt"
	"go/constant"
	"go/types"
	"math/big"
	"strings"

	"golang.org/x/tools/go/ssa"
)

type SpecEnv struct {
	x     *Exec
	vars  map[string]*Value
	st    *State
	old   *State
	fn    *ssa.Function
	frame *Frame
	hdr   *ssa.BasicBlock // loop header when evaluating an invariant
	quant int
	what  string
	bound []string
	pol   int // +1: the formula being built will be assumed and this position is positive
	shift map[string]Term // bound variable -> offset of the first array window it indexes
}

type specErr struct{ msg string }

func (e specErr) Error() string { return e.msg }

func sfail(format string, args ...interface{}) {
	panic(specErr{fmt.Sprintf(format, args...)})
}

func (env *SpecEnv) flip() *SpecEnv {
	n := *env
	n.pol = -env.pol
	return &n
}

func (env *SpecEnv) nopol() *SpecEnv {
	n := *env
	n.pol = 0
	return &n
}

func (env *SpecEnv) with(vars map[string]*Value) *SpecEnv {
	n := *env
	n.vars = map[string]*Value{}
	for k, v := range env.vars {
		n.vars[k] = v
	}
	for k, v := range vars {
		n.vars[k] = v
	}
	return &n
}

// EvalBool evaluates a clause to a boolean term; errors are returned.
func (env *SpecEnv) EvalBool(e Expr) (t Term, err error) {
	defer func() {
		if r := recover(); r != nil {
			if se, ok := r.(specErr); ok {
				err = se
				return
			}
			panic(r)
		}
	}()
	v := env.eval(e)
	return env.asBool(v), nil
}

// EvalAssume evaluates a clause that is going to be assumed: positive sequence equalities also
// yield equality of the normalised arrays (extensionality applied eagerly).
func (env *SpecEnv) EvalAssume(e Expr) (Term, error) {
	n := *env
	n.pol = 1
	return n.EvalBool(e)
}

func (env *SpecEnv) EvalInt(e Expr) (t Term, err error) {
	defer func() {
		if r := recover(); r != nil {
			if se, ok := r.(specErr); ok {
				err = se
				return
			}
			panic(r)
		}
	}()
	v := env.eval(e)
	return env.asInt(v), nil
}

func (env *SpecEnv) asBool(v *Value) Term {
	if len(v.C) == 1 && v.C[0].Sort == SBool {
		return v.C[0]
	}
	sfail("expected bool, got %s", describe(v))
	return Term{}
}

func (env *SpecEnv) asInt(v *Value) Term {
	if len(v.C) == 1 && v.C[0].Sort == SInt && v.Seq == nil {
		return v.C[0]
	}
	sfail("expected int, got %s", describe(v))
	return Term{}
}

func describe(v *Value) string {
	if v == nil {
		return "<nil>"
	}
	if v.Seq != nil {
		return "seq"
	}
	if v.T != nil {
		return v.T.String()
	}
	return v.SK
}

func (env *SpecEnv) isSeqLike(v *Value) bool {
	if v.Seq != nil {
		return true
	}
	if v.T == nil {
		return false
	}
	if isString(v.T) {
		return true
	}
	switch u := v.T.Underlying().(type) {
	case *types.Slice:
		return len(env.x.eng.layout(u.Elem())) == 1
	case *types.Array:
		return len(env.x.eng.layout(u.Elem())) == 1
	}
	return false
}

func (env *SpecEnv) isGhostBuf(v *Value) bool {
	if pt, ok := v.T.Underlying().(*types.Pointer); ok && isGhostType(pt.Elem()) {
		l := env.x.eng.layout(pt.Elem())
		return len(l) == 3 && l[0].Sort == SArr
	}
	return false
}

// toSeq views a value as a sequence in the env's state.
func (env *SpecEnv) toSeq(v *Value) *SeqV {
	if v.Seq != nil {
		return v.Seq
	}
	if v.SK == "nil" {
		return &SeqV{Len: IntLit(0), At: func(i Term) Term { return IntLit(0) }}
	}
	if v.T == nil {
		sfail("expected sequence, got %s", describe(v))
	}
	x := env.x
	if isString(v.T) {
		// a string merged from two branches: keep the branches apart
		var cond Term
		split := false
		a := &Value{T: v.T, C: append([]Term(nil), v.C...)}
		b := &Value{T: v.T, C: append([]Term(nil), v.C...)}
		okSplit := true
		for j := range v.C {
			if d, ok := x.iteDefs[v.C[j].S]; ok {
				if split && d[0].S != cond.S {
					okSplit = false
					break
				}
				cond, split = d[0], true
				a.C[j], b.C[j] = d[1], d[2]
			}
		}
		if split && okSplit {
			sa, sb := env.toSeq(a), env.toSeq(b)
			cc := cond
			return &SeqV{Len: v.C[2], At: func(i Term) Term { return Ite(cc, sa.At(i), sb.At(i)) }, IteC: cc, IteA: sa, IteB: sb}
		}
		// a string produced by concatenation/conversion: keep its symbolic structure
		if m, ok := x.matSeq[v.C[0].S]; ok && v.C[1].S == "0" && v.C[2].S == m.Len.S {
			return &SeqV{Len: m.Len, At: m.At, Arr: m.Arr, HasA: true, Row: m.Arr, Off: IntLit(0), HasRow: true}
		}
		return rowSeq(v.C[0], v.C[1], v.C[2])
	}
	switch u := v.T.Underlying().(type) {
	case *types.Slice:
		if len(x.eng.layout(u.Elem())) != 1 {
			sfail("sequence view of slice with composite elements %s", v.T)
		}
		if env.st == nil {
			sfail("slice content without a program state")
		}
		if rec := env.st.content[v.C[0].S]; rec != nil {
			if d, ok := litVal(Sub(v.C[1], rec.off)); ok && d.Sign() >= 0 {
				if d.Sign() == 0 && sameTerm(v.C[2], rec.ln) {
					return rec.seq
				}
				at, dd := rec.seq.At, BigLit(d)
				if rec.seq.HasRow {
					return rowSeq(rec.seq.Row, Add(rec.seq.Off, dd), v.C[2])
				}
				return &SeqV{Len: v.C[2], At: func(i Term) Term { return at(Add(i, dd)) }}
			}
		}
		if os.Getenv("GVC_DEBUG") != "" {
			var ks []string
			for k := range env.st.content {
				ks = append(ks, k)
			}
			fmt.Fprintf(os.Stderr, "toSeq row view ref=%s off=%s len=%s records=%v\n", v.C[0].S, v.C[1].S, v.C[2].S, ks)
		}
		key, _ := x.eng.heapKey("M", u.Elem(), 0)
		row := x.rowOf(x.heapGet(env.st, key), v.C[0])
		return rowSeq(row, v.C[1], v.C[2])
	case *types.Array:
		if len(x.eng.layout(u.Elem())) != 1 {
			sfail("sequence view of array with composite elements %s", v.T)
		}
		return rowSeq(v.C[0], IntLit(0), IntLit(u.Len()))
	case *types.Pointer:
		// pointer to ghost buffer
		if isGhostType(u.Elem()) {
			l := x.eng.layout(u.Elem())
			if len(l) == 3 && l[0].Sort == SArr {
				g := x.Load(env.st, x.ptrOf(v))
				if env.quant == 0 {
					x.ctx.Assume(And(Le(IntLit(0), g.C[1]), Le(IntLit(0), g.C[2]), Le(g.C[2], BigLit(pow2(40)))))
				}
				return rowSeq(x.ctx.Name("garr", g.C[0]), g.C[1], g.C[2])
			}
		}
	}
	sfail("expected sequence, got %s", describe(v))
	return nil
}

func seqVal(s *SeqV) *Value { return &Value{SK: "seq", Seq: s} }

// materialise yields a normalised array (zero outside [0,len)) and a length.
func (env *SpecEnv) materialise(s *SeqV) (Term, Term) {
	if s.HasA {
		return s.Arr, s.Len
	}
	if s.IteA != nil {
		aa, al := env.materialise(s.IteA)
		ba, bl := env.materialise(s.IteB)
		return Ite(s.IteC, aa, ba), Ite(s.IteC, al, bl)
	}
	if env.quant > 0 {
		probe := s.Len.S + "|" + s.At(Term{S: "$i", Sort: SInt}).S
		for _, bn := range env.bound {
			if strings.Contains(probe, bn) {
				sfail("cannot pass a sequence that depends on a bound variable to an uninterpreted function")
			}
		}
	}
	c := env.x.ctx
	key := "mat|" + s.Len.S + "|" + s.At(Term{S: "$i", Sort: SInt}).S
	if t, ok := c.named[key]; ok {
		s.Arr, s.HasA = t, true
		if !s.HasRow {
			s.Row, s.Off, s.HasRow = t, IntLit(0), true
		}
		return t, s.Len
	}
	n := c.Fresh("seq", SArr)
	i := Term{S: "i$m", Sort: SInt}
	body := Eq(Select(n, i), Ite(And(Le(IntLit(0), i), Lt(i, s.Len)), s.At(i), IntLit(0)))
	c.Assume(Forall([]Term{i}, body, Select(n, i)))
	c.named[key] = n
	env.x.matSeq[n.S] = &SeqV{Len: s.Len, At: s.At, Arr: n, HasA: true, Row: n, Off: IntLit(0), HasRow: true}
	s.Arr, s.HasA = n, true
	if !s.HasRow {
		s.Row, s.Off, s.HasRow = n, IntLit(0), true
	}
	return n, s.Len
}

// materialiseRev is materialise plus the same definition indexed by the underlying array (trigger: a
// read of that array), used where a sequence is identified with a ghost attribute: a ground read of
// the program array then finds the attribute's element.
func (env *SpecEnv) materialiseRev(s *SeqV) (Term, Term) {
	row, off, hasRow := s.Row, s.Off, s.HasRow && !s.HasA
	n, ln := env.materialise(s)
	if !hasRow || env.quant > 0 || strings.Contains(row.S, "$") || strings.Contains(off.S, "$") || strings.Contains(ln.S, "$") {
		return n, ln
	}
	c := env.x.ctx
	key := "matrev|" + n.S
	if _, done := c.named[key]; done {
		return n, ln
	}
	c.named[key] = TTrue
	j := Term{S: "j$m", Sort: SInt}
	c.Assume(Forall([]Term{j}, Implies(And(Le(off, j), Lt(j, Add(off, ln))), Eq(Select(row, j), Select(n, Sub(j, off)))), Select(row, j)))
	return n, ln
}

func (env *SpecEnv) tryMaterialise(a, b *SeqV) (ma, mb Term, ok bool) {
	defer func() {
		if r := recover(); r != nil {
			if _, isSpec := r.(specErr); isSpec {
				ok = false
				return
			}
			panic(r)
		}
	}()
	ma, _ = env.materialise(a)
	mb, _ = env.materialise(b)
	return ma, mb, true
}

func (env *SpecEnv) seqEq(a, b *SeqV) Term {
	if a.HasA && b.HasA && a.Arr.S == b.Arr.S && a.Len.S == b.Len.S {
		return TTrue
	}
	if a.HasRow && b.HasRow && a.Row.S == b.Row.S && a.Off.S == b.Off.S && a.Len.S == b.Len.S {
		return TTrue
	}
	c := env.x.ctx
	// small literal length: expand elementwise (no quantifier)
	if n, ok := litVal(a.Len); ok && n.Int64() <= 40 {
		cs := []Term{Eq(a.Len, b.Len)}
		for i := int64(0); i < n.Int64(); i++ {
			cs = append(cs, Eq(a.At(IntLit(i)), b.At(IntLit(i))))
		}
		return And(cs...)
	}
	if n, ok := litVal(b.Len); ok && n.Int64() <= 40 {
		cs := []Term{Eq(a.Len, b.Len)}
		for i := int64(0); i < n.Int64(); i++ {
			cs = append(cs, Eq(a.At(IntLit(i)), b.At(IntLit(i))))
		}
		return And(cs...)
	}
	var parts []Term
	// quantify over the index of the underlying array so that the trigger is a
	// plain (select row j): arithmetic inside triggers does not e-match reliably
	if a.HasRow {
		c.n++
		j := Term{S: fmt.Sprintf("j$%d", c.n), Sort: SInt}
		rel := Sub(j, a.Off)
		parts = append(parts, Forall([]Term{j}, Implies(And(Le(a.Off, j), Lt(j, Add(a.Off, a.Len))), Eq(Select(a.Row, j), b.At(rel))), Select(a.Row, j)))
	}
	if b.HasRow && !(a.HasRow && a.Row.S == b.Row.S && a.Off.S == b.Off.S) {
		c.n++
		j := Term{S: fmt.Sprintf("j$%d", c.n), Sort: SInt}
		rel := Sub(j, b.Off)
		parts = append(parts, Forall([]Term{j}, Implies(And(Le(b.Off, j), Lt(j, Add(b.Off, b.Len))), Eq(a.At(rel), Select(b.Row, j))), Select(b.Row, j)))
	}
	if len(parts) == 0 {
		c.n++
		i := Term{S: fmt.Sprintf("k$%d", c.n), Sort: SInt}
		q := Forall([]Term{i}, Implies(And(Le(IntLit(0), i), Lt(i, a.Len)), Eq(a.At(i), b.At(i))))
		// both sequences already have a materialised array (zero outside the range): with equal lengths, equality of
		// the arrays is the same statement, and it can follow by plain equational reasoning where the quantified form
		// has no trigger (two conditional sequences related through a third one)
		if env.quant == 0 {
			probe := Term{S: "$i", Sort: SInt}
			ka := "mat|" + a.Len.S + "|" + a.At(probe).S
			kb := "mat|" + b.Len.S + "|" + b.At(probe).S
			if ta, ok := c.named[ka]; ok {
				if tb, ok := c.named[kb]; ok {
					q = Or(q, Eq(ta, tb))
				}
			}
		}
		parts = append(parts, q)
	}
	return And(append([]Term{Eq(a.Len, b.Len)}, parts...)...)
}

func (env *SpecEnv) eval(e Expr) *Value {
	switch n := e.(type) {
	case *EInt:
		return mkInt(BigLit(n.V))
	case *EBool:
		return mkBool(BoolLit(n.V))
	case *ENil:
		return &Value{SK: "nil", C: []Term{IntLit(0)}}
	case *EStr:
		return seqVal(env.strSeq(n.V))
	case *EIdent:
		return env.ident(n.Name)
	case *EUn:
		v := env.eval(n.X)
		switch n.Op {
		case "!":
			return mkBool(Not(env.asBool(env.flip().eval(n.X))))
		case "-":
			return mkInt(Neg(env.asInt(v)))
		case "*":
			if v.T != nil && isPointer(v.T) {
				lv := env.x.Load(env.st, env.x.ptrOf(v))
				if env.quant == 0 {
					env.x.ctx.Assume(env.x.eng.typeInv(lv, env.st.alloc))
				}
				return lv
			}
			return v
		}
	case *ECond:
		c := env.asBool(env.nopol().eval(n.C))
		if c.S == "true" {
			return env.eval(n.A) // decided at translation time (e.g. a case analysis on a literal argument)
		}
		if c.S == "false" {
			return env.eval(n.B)
		}
		a, b := env.eval(n.A), env.eval(n.B)
		return env.ite(c, a, b)
	case *EBin:
		return env.bin(n)
	case *ESel:
		return env.sel(n)
	case *EIndex:
		xv := env.eval(n.X)
		i := env.asInt(env.eval(n.I))
		return env.index(xv, i)
	case *ESlice:
		xv := env.eval(n.X)
		s := env.toSeq(xv)
		lo := IntLit(0)
		hi := s.Len
		if n.Lo != nil {
			lo = env.asInt(env.eval(n.Lo))
		}
		if n.Hi != nil {
			hi = env.asInt(env.eval(n.Hi))
		}
		if s.HasRow {
			return seqVal(rowSeq(s.Row, Add(s.Off, lo), Sub(hi, lo)))
		}
		at := s.At
		return seqVal(&SeqV{Len: Sub(hi, lo), At: func(i Term) Term { return at(Add(i, lo)) }})
	case *ECall:
		return env.call(n)
	case *EQuant:
		return env.quantExpr(n)
	}
	sfail("unsupported expression %T", e)
	return nil
}

func (env *SpecEnv) strSeq(s string) *SeqV {
	arr := ConstArr(SArr, IntLit(0))
	for i := 0; i < len(s); i++ {
		arr = Store(arr, IntLit(int64(i)), IntLit(int64(s[i])))
	}
	if len(s) > 2 {
		arr = env.x.ctx.Name("str", arr)
	}
	return arrSeq(arr, IntLit(int64(len(s))))
}

func (env *SpecEnv) ite(c Term, a, b *Value) *Value {
	if env.isSeqLike(a) || env.isSeqLike(b) || a.Seq != nil || b.Seq != nil {
		sa, sb := env.toSeq(a), env.toSeq(b)
		if env.quant == 0 {
			c = shareLen(c)
		}
		return seqVal(&SeqV{Len: shareLen(Ite(c, sa.Len, sb.Len)), At: func(i Term) Term { return Ite(c, sa.At(i), sb.At(i)) }})
	}
	if len(a.C) != len(b.C) {
		sfail("?: branches of different shape (%s vs %s)", describe(a), describe(b))
	}
	out := &Value{T: a.T, SK: a.SK, C: make([]Term, len(a.C))}
	if a.T == nil {
		out.T = b.T
	}
	for i := range a.C {
		if a.C[i].Sort != b.C[i].Sort {
			sfail("?: branches of different sort")
		}
		out.C[i] = Ite(c, a.C[i], b.C[i])
	}
	return out
}

func (env *SpecEnv) ident(name string) *Value {
	if v, ok := env.vars[name]; ok {
		return v
	}
	// rangeindexN: hidden index of the N-th loop
	if env.frame != nil && strings.HasPrefix(name, "rangeindex") && len(name) > len("rangeindex") {
		var n int
		fmt.Sscanf(name[len("rangeindex"):], "%d", &n)
		for h, lp := range env.frame.loops {
			if lp.ordinal == n {
				if a := env.frame.localByName("rangeindex", h); a != nil {
					return env.x.Load(env.st, &Ptr{Local: a, RootT: derefT(a.Type())})
				}
			}
		}
	}
	// local variable (loop invariants)
	if env.frame != nil {
		if a := env.frame.localByName(name, env.hdr); a != nil {
			if a.Heap {
				// escaping variable: its cell is a heap object
				if pv := env.frame.vals[a]; pv != nil {
					return env.x.Load(env.st, env.x.ptrOf(pv))
				}
			}
			return env.x.Load(env.st, &Ptr{Local: a, RootT: derefT(a.Type())})
		}
	}
	// package-level constant or variable
	if env.fn != nil && env.fn.Pkg != nil {
		if v := env.pkgObject(env.fn.Pkg.Pkg, name); v != nil {
			return v
		}
	}
	sfail("unknown identifier %q", name)
	return nil
}

func (env *SpecEnv) pkgObject(pkg *types.Package, name string) *Value {
	obj := pkg.Scope().Lookup(name)
	switch o := obj.(type) {
	case *types.Const:
		return constValue(env.x, o.Val(), o.Type())
	case *types.Var:
		sp := env.x.eng.prog.Package(pkg)
		if sp != nil {
			if g, ok := sp.Members[name].(*ssa.Global); ok {
				return env.x.Load(env.st, &Ptr{Global: g, RootT: derefT(g.Type())})
			}
		}
	}
	return nil
}

func constValue(x *Exec, val constant.Value, t types.Type) *Value {
	switch val.Kind() {
	case constant.Int:
		bi, _ := new(big.Int).SetString(val.ExactString(), 10)
		return &Value{T: nilIfUntyped(t), SK: "int", C: []Term{BigLit(bi)}}
	case constant.Bool:
		return &Value{SK: "bool", C: []Term{BoolLit(constant.BoolVal(val))}}
	case constant.String:
		s := constant.StringVal(val)
		arr := ConstArr(SArr, IntLit(0))
		for i := 0; i < len(s); i++ {
			arr = Store(arr, IntLit(int64(i)), IntLit(int64(s[i])))
		}
		if len(s) > 2 {
			arr = x.ctx.Name("str", arr)
		}
		tt := t
		if tt == nil || !isString(tt) {
			tt = types.Typ[types.String]
		}
		if b, ok := tt.(*types.Basic); ok && b.Kind() == types.UntypedString {
			tt = types.Typ[types.String]
		}
		return &Value{T: tt, C: []Term{arr, IntLit(0), IntLit(int64(len(s)))}}
	}
	return nil
}

func nilIfUntyped(t types.Type) types.Type {
	if b, ok := t.(*types.Basic); ok && b.Info()&types.IsUntyped != 0 {
		return nil
	}
	return t
}

func (env *SpecEnv) sel(n *ESel) *Value {
	x := env.x
	// qualified package constant
	if id, ok := n.X.(*EIdent); ok {
		if _, isVar := env.vars[id.Name]; !isVar && (env.frame == nil || env.frame.localByName(id.Name, env.hdr) == nil) {
			for _, p := range x.eng.prog.AllPackages() {
				if p.Pkg.Name() == id.Name {
					if v := env.pkgObject(p.Pkg, n.Name); v != nil {
						return v
					}
				}
			}
		}
	}
	v := env.eval(n.X)
	if v.Seq != nil || v.T == nil {
		sfail("field %s of non-program value", n.Name)
	}
	if rec := env.ghostRecord(v, n.Name); rec != nil {
		return seqVal(rec.seq)
	}
	// auto-deref
	if pt, ok := v.T.Underlying().(*types.Pointer); ok {
		if isGhostType(pt.Elem()) {
			g := x.Load(env.st, x.ptrOf(v))
			for j, c := range x.eng.layout(pt.Elem()) {
				if c.Path == n.Name {
					return &Value{SK: "int", C: []Term{g.C[j]}}
				}
			}
			sfail("ghost type %s has no component %s", pt.Elem(), n.Name)
		}
		v = x.Load(env.st, x.ptrOf(v))
	}
	if isGhostType(v.T) {
		for j, c := range x.eng.layout(v.T) {
			if c.Path == n.Name {
				return &Value{SK: "int", C: []Term{v.C[j]}}
			}
		}
	}
	obj, idx, _ := types.LookupFieldOrMethod(v.T, true, nil, n.Name)
	if obj == nil && env.fn != nil && env.fn.Pkg != nil {
		obj, idx, _ = types.LookupFieldOrMethod(v.T, true, env.fn.Pkg.Pkg, n.Name)
	}
	if obj == nil {
		// search all packages (unexported fields of other packages)
		for _, p := range x.eng.prog.AllPackages() {
			obj, idx, _ = types.LookupFieldOrMethod(v.T, true, p.Pkg, n.Name)
			if obj != nil {
				break
			}
		}
	}
	fv, ok := obj.(*types.Var)
	if !ok || !fv.IsField() {
		if off, cnt, srt, ok := x.eng.ghostField(v.T, n.Name); ok {
			return ghostFieldValue(v, off, cnt, srt)
		}
		sfail("%s has no field %s", v.T, n.Name)
	}
	cur := v
	for _, fi := range idx {
		t := cur.T
		if pt, ok := t.Underlying().(*types.Pointer); ok { // embedded pointer
			cur = x.Load(env.st, x.ptrOf(cur))
			t = pt.Elem()
		}
		st := t.Underlying().(*types.Struct)
		off, cnt := x.eng.fieldRange(st, fi)
		cur = x.eng.sub(cur, off, cnt, st.Field(fi).Type())
	}
	if env.quant == 0 && env.st != nil {
		// heap invariant: every stored value satisfies the invariant of its type
		x.ctx.Assume(x.eng.typeInv(cur, env.st.alloc))
	}
	return cur
}

// ghostKey: the heap key and record key of a ghost sequence field behind a plain heap pointer.
func (env *SpecEnv) ghostKey(v *Value, name string) (string, string, bool) {
	x := env.x
	if v == nil || v.T == nil || !isPointer(v.T) || env.st == nil {
		return "", "", false
	}
	off, _, srt, ok := x.eng.ghostField(v.T, name)
	if !ok || srt != "seq" {
		return "", "", false
	}
	p := x.normPtr(x.ptrOf(v))
	o, _, idx := x.compRange(p)
	if p.Local != nil || p.Global != nil || p.Elem || len(idx) > 0 {
		return "", "", false
	}
	key, _ := x.eng.heapKey("H", p.RootT, o+off)
	return key, key + "|" + p.Heap.S, true
}

// ghostRecord: the symbolic value recorded for a ghost sequence field, if the heap component is unchanged since.
func (env *SpecEnv) ghostRecord(v *Value, name string) *ghostRec {
	hk, rk, ok := env.ghostKey(v, name)
	if !ok || env.st.gcontent == nil {
		return nil
	}
	rec := env.st.gcontent[rk]
	if rec == nil || env.x.heapGet(env.st, hk).S != rec.heapTerm {
		return nil
	}
	return rec
}

func ghostFieldValue(v *Value, off, cnt int, srt string) *Value {
	switch srt {
	case "seq":
		return seqVal(arrSeq(v.C[off], v.C[off+1]))
	case "bool":
		return mkBool(v.C[off])
	}
	return mkInt(v.C[off])
}

func (env *SpecEnv) noteShift(sq *SeqV, i Term) {
	if env.shift == nil || !sq.HasRow || sq.Off.S == "0" {
		return
	}
	for _, bn := range env.bound {
		if bn == i.S {
			if _, ok := env.shift[bn]; !ok {
				env.shift[bn] = sq.Off
			}
		}
	}
}

func (env *SpecEnv) index(xv *Value, i Term) *Value {
	x := env.x
	if xv.Seq != nil || isString(xv.T) {
		sq := env.toSeq(xv)
		env.noteShift(sq, i)
		return mkInt(sq.At(i))
	}
	if xv.T != nil && env.isSeqLike(xv) {
		if sq := env.toSeq(xv); sq.HasRow {
			env.noteShift(sq, i)
		}
	}
	if xv.T == nil {
		sfail("index of %s", describe(xv))
	}
	if pt, ok := xv.T.Underlying().(*types.Pointer); ok {
		if _, isSl := pt.Elem().Underlying().(*types.Slice); isSl {
			xv = x.Load(env.st, x.ptrOf(xv))
		}
	}
	switch u := xv.T.Underlying().(type) {
	case *types.Slice:
		if env.shift != nil && len(xv.C) > 1 && xv.C[1].S != "0" {
			// a bound variable indexing a slice at a non-zero offset: quantify over the position in the backing array
			for _, bn := range env.bound {
				if bn == i.S {
					if _, ok := env.shift[bn]; !ok {
						env.shift[bn] = xv.C[1]
					}
				}
			}
		}
		return x.Load(env.st, &Ptr{Heap: xv.C[0], Elem: true, RootT: u.Elem(), Idx: Add(xv.C[1], i)})
	case *types.Array:
		l := x.eng.layout(u.Elem())
		out := &Value{T: u.Elem(), C: make([]Term, len(l))}
		for j := range l {
			out.C[j] = Select(xv.C[j], i)
		}
		return out
	case *types.Pointer:
		if _, ok := u.Elem().Underlying().(*types.Array); ok {
			return x.Load(env.st, &Ptr{Heap: xv.C[0], RootT: u.Elem(), Path: []PathEl{{Field: -1, Index: i}}})
		}
	}
	sfail("cannot index %s", describe(xv))
	return nil
}

func (env *SpecEnv) bin(n *EBin) *Value {
	switch n.Op {
	case "&&":
		a := env.asBool(env.eval(n.X))
		if a.S == "false" {
			return mkBool(TFalse)
		}
		return mkBool(And(a, env.asBool(env.eval(n.Y))))
	case "||":
		a := env.asBool(env.eval(n.X))
		if a.S == "true" {
			return mkBool(TTrue)
		}
		return mkBool(Or(a, env.asBool(env.eval(n.Y))))
	case "==>":
		a := env.asBool(env.flip().eval(n.X))
		if a.S == "false" {
			return mkBool(TTrue)
		}
		return mkBool(Implies(a, env.asBool(env.eval(n.Y))))
	case "<==>":
		return mkBool(Iff(env.asBool(env.nopol().eval(n.X)), env.asBool(env.nopol().eval(n.Y))))
	}
	if n.Op == "==" || n.Op == "!=" {
		env = env.nopol()
	}
	a, b := env.eval(n.X), env.eval(n.Y)
	switch n.Op {
	case "===":
		sa, sb := env.toSeq(a), env.toSeq(b)
		t := env.seqEq(sa, sb)
		if env.pol > 0 && env.quant == 0 && t.S != "true" && os.Getenv("GVC_NOEXT") == "" {
			// eager extensionality: equal contents give equal normalised arrays
			if ma, mb, ok := env.tryMaterialise(sa, sb); ok {
				t = And(t, Eq(ma, mb))
			}
		}
		return mkBool(t)
	case "!==":
		return mkBool(Not(env.seqEq(env.toSeq(a), env.toSeq(b))))
	case "==":
		return mkBool(env.equal(a, b))
	case "!=":
		return mkBool(Not(env.equal(a, b)))
	case "<":
		return mkBool(Lt(env.asInt(a), env.asInt(b)))
	case "<=":
		return mkBool(Le(env.asInt(a), env.asInt(b)))
	case ">":
		return mkBool(Gt(env.asInt(a), env.asInt(b)))
	case ">=":
		return mkBool(Ge(env.asInt(a), env.asInt(b)))
	case "+":
		if env.isSeqLike(a) && env.isSeqLike(b) {
			return seqVal(catSeq(env.toSeq(a), env.toSeq(b)))
		}
		return mkInt(Add(env.asInt(a), env.asInt(b)))
	case "-":
		return mkInt(Sub(env.asInt(a), env.asInt(b)))
	case "*":
		return mkInt(Mul(env.asInt(a), env.asInt(b)))
	case "/":
		return mkInt(EDiv(env.asInt(a), env.asInt(b)))
	case "%":
		return mkInt(EMod(env.asInt(a), env.asInt(b)))
	case "<<":
		if k, ok := litVal(env.asInt(b)); ok {
			return mkInt(Mul(env.asInt(a), BigLit(pow2(uint(k.Int64())))))
		}
	case ">>":
		if k, ok := litVal(env.asInt(b)); ok {
			return mkInt(EDiv(env.asInt(a), BigLit(pow2(uint(k.Int64())))))
		}
	case "&":
		if k, ok := litVal(env.asInt(b)); ok {
			return mkInt(andConst(env.asInt(a), k))
		}
	case "|", "^":
		return mkInt(bitop(env.x.ctx, n.Op, env.asInt(a), env.asInt(b), 64))
	}
	sfail("unsupported operator %s", n.Op)
	return nil
}

// shareCtx is the context of the function being translated (VC generation is sequential); large
// closed sub-terms of sequence lengths are bound to constants there so that nested concatenations
// and conditionals do not repeat them.
var shareCtx *Ctx

func shareLen(t Term) Term {
	if shareCtx == nil || len(t.S) < 48 || strings.Contains(t.S, "$") || os.Getenv("GVC_NOSHARE") != "" {
		return t
	}
	return shareCtx.Name("slen", t)
}

func catSeq(a, b *SeqV) *SeqV {
	if n, ok := litVal(a.Len); ok && n.Sign() == 0 {
		return b
	}
	if n, ok := litVal(b.Len); ok && n.Sign() == 0 {
		return a
	}
	al := shareLen(a.Len)
	return &SeqV{Len: shareLen(Add(al, shareLen(b.Len))), At: func(i Term) Term {
		return Ite(Lt(i, al), a.At(i), b.At(Sub(i, al)))
	}}
}

func (env *SpecEnv) equal(a, b *Value) Term {
	if a.SK == "nil" || b.SK == "nil" {
		o := a
		if a.SK == "nil" {
			o = b
		}
		if o.SK == "nil" {
			return TTrue
		}
		if o.Seq != nil {
			sfail("nil comparison with sequence")
		}
		if o.P != nil && (o.P.Elem || o.P.Local != nil || o.P.Global != nil || len(o.P.Path) > 0) {
			return TFalse // address of a variable, field or element: never nil
		}
		return Eq(o.C[0], IntLit(0)) // pointer ref, slice ref, interface tag, map ref
	}
	if a.Seq != nil || b.Seq != nil || isString(a.T) || isString(b.T) {
		return env.seqEq(env.toSeq(a), env.toSeq(b))
	}
	if len(a.C) != len(b.C) {
		sfail("== between different shapes (%s vs %s)", describe(a), describe(b))
	}
	var cs []Term
	for i := range a.C {
		if a.C[i].Sort != b.C[i].Sort {
			sfail("== between different sorts")
		}
		cs = append(cs, Eq(a.C[i], b.C[i]))
	}
	return And(cs...)
}

func (env *SpecEnv) quantExpr(n *EQuant) *Value {
	vars := map[string]*Value{}
	var bvs []Term
	var guards []Term
	for _, v := range n.Vars {
		env.x.ctx.n++
		name, typ := v, "int"
		if j := strings.IndexByte(v, ':'); j >= 0 {
			name, typ = v[:j], v[j+1:]
		}
		switch typ {
		case "int":
			bv := Term{S: fmt.Sprintf("%s$%d", name, env.x.ctx.n), Sort: SInt}
			bvs = append(bvs, bv)
			vars[name] = mkInt(bv)
		case "bool":
			bv := Term{S: fmt.Sprintf("%s$%d", name, env.x.ctx.n), Sort: SBool}
			bvs = append(bvs, bv)
			vars[name] = mkBool(bv)
		case "seq":
			a := Term{S: fmt.Sprintf("%s$a%d", name, env.x.ctx.n), Sort: SArr}
			l := Term{S: fmt.Sprintf("%s$l%d", name, env.x.ctx.n), Sort: SInt}
			bvs = append(bvs, a, l)
			guards = append(guards, Le(IntLit(0), l))
			vars[name] = seqVal(arrSeq(a, l))
		default:
			sfail("unknown binder type %s", typ)
		}
	}
	sub := env.with(vars)
	sub.quant = env.quant + 1
	for _, bv := range bvs {
		sub.bound = append(sub.bound, bv.S)
	}
	// first pass: does a bound variable index an array window at a non-zero offset?
	sub.shift = map[string]Term{}
	body := sub.asBool(sub.eval(n.Body))
	if len(sub.shift) > 0 {
		// re-quantify over the index into the underlying array (j = off + k), so that the
		// trigger is a plain (select row j)
		for name, v := range vars {
			if len(v.C) != 1 {
				continue
			}
			if off, ok := sub.shift[v.C[0].S]; ok {
				vars[name] = mkInt(Sub(v.C[0], off))
			}
		}
		sub2 := env.with(vars)
		sub2.quant = env.quant + 1
		sub2.bound = sub.bound
		body = sub2.asBool(sub2.eval(n.Body))
	}
	if n.Forall {
		return mkBool(Forall(bvs, Implies(And(guards...), body)))
	}
	return mkBool(Exists(bvs, And(append(guards, body)...)))
}

func (env *SpecEnv) call(n *ECall) *Value {
	x := env.x
	id, ok := n.Fn.(*EIdent)
	if !ok {
		sfail("only spec functions and builtins can be called in contracts")
	}
	switch id.Name {
	case "old":
		if len(n.Args) != 1 {
			sfail("old(e)")
		}
		if env.old == nil {
			sfail("old() has no pre-state here")
		}
		o := *env
		o.st = env.old
		o.frame = nil
		ov := o.eval(n.Args[0])
		if ov.Seq == nil && ov.T != nil && !isString(ov.T) && (o.isSeqLike(ov) || o.isGhostBuf(ov)) {
			return seqVal(o.toSeq(ov)) // contents are read in the pre-state
		}
		return ov
	case "len":
		v := env.eval(n.Args[0])
		if v.SK == "nil" {
			return mkInt(IntLit(0))
		}
		if v.T != nil {
			if _, ok := v.T.Underlying().(*types.Map); ok {
				return mkInt(App(SInt, "maplen", v.C[0]))
			}
		}
		return mkInt(env.toSeqLen(v))
	case "cap":
		v := env.eval(n.Args[0])
		if isSlice(v.T) {
			return mkInt(v.C[3])
		}
		sfail("cap of %s", describe(v))
	case "seq":
		var els []Term
		for _, a := range n.Args {
			els = append(els, env.asInt(env.eval(a)))
		}
		return seqVal(&SeqV{Len: IntLit(int64(len(els))), At: func(i Term) Term {
			if len(els) == 0 {
				return IntLit(0)
			}
			t := els[len(els)-1]
			for k := len(els) - 2; k >= 0; k-- {
				t = Ite(Eq(i, IntLit(int64(k))), els[k], t)
			}
			return t
		}})
	case "cat":
		if len(n.Args) == 0 {
			return seqVal(&SeqV{Len: IntLit(0), At: func(i Term) Term { return IntLit(0) }})
		}
		s := env.toSeq(env.eval(n.Args[0]))
		for _, a := range n.Args[1:] {
			s = catSeq(s, env.toSeq(env.eval(a)))
		}
		return seqVal(s)
	case "fresh":
		v := env.eval(n.Args[0])
		if env.old == nil {
			sfail("fresh() needs a pre-state")
		}
		if v.T == nil || len(v.C) == 0 {
			sfail("fresh of %s", describe(v))
		}
		return mkBool(Or(Eq(v.C[0], IntLit(0)), Ge(v.C[0], env.old.alloc)))
	case "allocated":
		v := env.eval(n.Args[0])
		return mkBool(And(Lt(IntLit(0), v.C[0]), Lt(v.C[0], env.st.alloc)))
	case "min", "max":
		a, b := env.asInt(env.eval(n.Args[0])), env.asInt(env.eval(n.Args[1]))
		if id.Name == "min" {
			return mkInt(Ite(Le(a, b), a, b))
		}
		return mkInt(Ite(Le(a, b), b, a))
	case "typeis":
		// typeis(x, "pkg.T") : dynamic type of interface x
		v := env.eval(n.Args[0])
		s, ok := n.Args[1].(*EStr)
		if !ok || !isIface(v.T) {
			sfail("typeis(iface, \"type\")")
		}
		if s.V == "stream" {
			_, isB := x.readerRef(v)
			return mkBool(isB)
		}
		t := x.eng.findType(s.V)
		if t == nil {
			// the package declaring the type is not loaded: no value of this program has that dynamic type
			return mkBool(TFalse)
		}
		return mkBool(Eq(v.C[0], IntLit(int64(x.eng.typeID(t)))))
	case "ref":
		v := env.eval(n.Args[0])
		if v.T != nil && isIface(v.T) {
			return mkInt(v.C[1])
		}
		return mkInt(v.C[0])
	case "content":
		return env.eval(n.Args[0])
	case "xor8", "or8", "and8":
		// bitwise operation on octets (bit-blasted; the same term the engine builds for byte operands)
		a, b := env.asInt(env.eval(n.Args[0])), env.asInt(env.eval(n.Args[1]))
		op := map[string]string{"xor8": "^", "or8": "|", "and8": "&"}[id.Name]
		return mkInt(bitop(x.ctx, op, a, b, 8))
	case "as":
		// as(i, "*pkg.T"): the value behind interface i viewed as a pointer of that type (meaningful when typeis holds)
		v := env.eval(n.Args[0])
		ts, ok := n.Args[1].(*EStr)
		if !ok || v.T == nil || !isIface(v.T) {
			sfail("as(iface, \"*pkg.T\")")
		}
		t := x.eng.findType(ts.V)
		if t == nil || !isPointer(t) {
			sfail("as: unknown pointer type %s", ts.V)
		}
		return &Value{T: t, C: []Term{v.C[1]}}
	case "statictype":
		// statictype(x, "T"): is the static Go type of x (at this instantiation) T? decided at translation time
		v := env.eval(n.Args[0])
		ts, ok := n.Args[1].(*EStr)
		if !ok || v.T == nil {
			return mkBool(TFalse)
		}
		t := x.eng.findType(ts.V)
		return mkBool(BoolLit(t != nil && types.Identical(types.Unalias(v.T), t)))
	case "mapdom", "mapval":
		// mapdom(m, k): k is a key of the (integer-keyed) map m; mapval(m, k): the value stored under k
		mv := env.eval(n.Args[0])
		mt, ok := x.intKeyedMap(mv.T)
		if !ok {
			sfail("%s: not a map with an integer key type", id.Name)
		}
		k := env.asInt(env.eval(n.Args[1]))
		dom, vals := x.mapKeys(mt)
		if id.Name == "mapdom" {
			return mkBool(And(Neq(mv.C[0], IntLit(0)), Select(Select(x.heapGet(env.st, dom), mv.C[0]), k)))
		}
		out := &Value{T: mt.Elem()}
		for _, vk := range vals {
			out.C = append(out.C, Select(Select(x.heapGet(env.st, vk), mv.C[0]), k))
		}
		return out
	case "mapseen":
		// mapseen(N, k): the range-over-map loop with ordinal N has already handed out key k
		if env.frame == nil {
			sfail("mapseen outside a function body")
		}
		lit, ok := n.Args[0].(*EInt)
		if !ok {
			sfail("mapseen(loopOrdinal, key)")
		}
		k := env.asInt(env.eval(n.Args[1]))
		for h, lp := range env.frame.loops {
			if int64(lp.ordinal) != lit.V.Int64() {
				continue
			}
			for _, in := range h.Instrs {
				if nx, ok := in.(*ssa.Next); ok {
					if cell := env.st.locals[nx.Iter]; cell != nil && len(cell.C) == 1 {
						return mkBool(Select(cell.C[0], k))
					}
				}
			}
		}
		sfail("mapseen: loop %s is not a range over an integer-keyed map", lit.V.String())
	case "zeros":
		n0 := env.asInt(env.eval(n.Args[0]))
		return seqVal(&SeqV{Len: n0, At: func(i Term) Term { return IntLit(0) }})
	case "setghost":
		// setghost(obj, "field", value): the ghost field of obj holds value in the post-state
		if len(n.Args) != 3 {
			sfail("setghost(obj, \"field\", value)")
		}
		fs, ok := n.Args[1].(*EStr)
		if !ok {
			sfail("setghost: field name must be a string literal")
		}
		cur := env.eval(&ESel{X: n.Args[0], Name: fs.V})
		val := env.eval(n.Args[2])
		if cur.Seq != nil {
			mb, lb := env.materialise(env.toSeq(val))
			return mkBool(And(Eq(cur.Seq.Arr, mb), Eq(cur.Seq.Len, lb)))
		}
		return mkBool(Eq(cur.C[0], val.C[0]))
	case "seqid":
		// the two sequences are one and the same (trusted specs of ghost attributes)
		sa, sb := env.toSeq(env.eval(n.Args[0])), env.toSeq(env.eval(n.Args[1]))
		ma, la := env.materialiseRev(sa)
		mb, lb := env.materialiseRev(sb)
		return mkBool(And(Eq(ma, mb), Eq(la, lb)))
	case "rd":
		// remaining stream of a reader (interface value or *bytes.Buffer / *bytes.Reader)
		v := env.eval(n.Args[0])
		return seqVal(x.readerSeq(env.st, v))
	case "held":
		v := env.eval(n.Args[0])
		var g *Value
		if isPointer(v.T) {
			g = x.Load(env.st, x.ptrOf(v))
		} else {
			g = v
		}
		return mkBool(g.C[0])
	}
	if sf, ok := x.eng.specs[id.Name]; ok {
		var args []*Value
		for _, a := range n.Args {
			args = append(args, env.eval(a))
		}
		return env.applySpec(sf, args)
	}
	sfail("unknown function %s in contract", id.Name)
	return nil
}

func (env *SpecEnv) toSeqLen(v *Value) Term {
	if v.Seq != nil {
		return v.Seq.Len
	}
	if v.T != nil {
		if pt, ok := v.T.Underlying().(*types.Pointer); ok {
			if _, isSl := pt.Elem().Underlying().(*types.Slice); isSl {
				v = env.x.Load(env.st, env.x.ptrOf(v))
			}
		}
	}
	if isSlice(v.T) || isString(v.T) {
		return v.C[2]
	}
	return env.toSeq(v).Len
}

func (e *Engine) findType(name string) types.Type {
	// name: "pkgname.Type" or "*pkgname.Type"
	ptr := strings.HasPrefix(name, "*")
	name = strings.TrimPrefix(name, "*")
	j := strings.LastIndexByte(name, '.')
	if j < 0 {
		return nil
	}
	pn, tn := name[:j], name[j+1:]
	for _, p := range e.prog.AllPackages() {
		if p.Pkg.Name() == pn || p.Pkg.Path() == pn {
			if o := p.Pkg.Scope().Lookup(tn); o != nil {
				if _, ok := o.(*types.TypeName); ok {
					if ptr {
						return types.NewPointer(o.Type())
					}
					return o.Type()
				}
			}
		}
	}
	return nil
}

// ---------- spec functions

func sortOfSpecType(t string) []Sort {
	switch t {
	case "int", "byte", "ref":
		return []Sort{SInt}
	case "bool":
		return []Sort{SBool}
	case "seq":
		return []Sort{SArr, SInt}
	}
	return nil
}

func (env *SpecEnv) applySpec(sf *SpecFunc, args []*Value) *Value {
	x := env.x
	if len(args) != len(sf.Params) {
		sfail("%s expects %d arguments", sf.Name, len(sf.Params))
	}
	if sf.Body != nil && !sf.Rec && !sf.Opaque {
		// inline expansion
		vars := map[string]*Value{}
		for i, p := range sf.Params {
			vars[p.Name] = env.coerce(args[i], p.Type, sf.Name)
		}
		sub := &SpecEnv{x: x, vars: vars, st: env.st, old: env.old, fn: env.fn, quant: env.quant, bound: env.bound}
		return sub.coerce(sub.eval(sf.Body), sf.Result, sf.Name)
	}
	// SMT-level function
	x.declareSpec(sf)
	var targs []Term
	for i, p := range sf.Params {
		v := env.coerce(args[i], p.Type, sf.Name)
		switch p.Type {
		case "seq":
			a, l := env.materialise(v.Seq)
			targs = append(targs, a, l)
		default:
			targs = append(targs, v.C[0])
		}
	}
	if env.quant == 0 {
		x.extInstances(sf, targs)
	}
	switch sf.Result {
	case "seq":
		arr := App(SArr, sf.Name+"$arr", targs...)
		ln := App(SInt, sf.Name+"$len", targs...)
		if env.quant == 0 {
			arr = x.ctx.Name(sf.Name, arr)
			ln = x.ctx.Name(sf.Name+"len", ln)
			x.ctx.Assume(Le(IntLit(0), ln))
		}
		return seqVal(arrSeq(arr, ln))
	case "bool":
		return mkBool(App(SBool, sf.Name, targs...))
	default:
		return mkInt(App(SInt, sf.Name, targs...))
	}
}

// extInstances: two applications of the same spec function whose sequence arguments are different
// array terms get an instance of array extensionality for each such pair (A = B or they differ
// at a witness index), so that congruence can merge the applications when contents agree.
func (x *Exec) extInstances(sf *SpecFunc, targs []Term) {
	prev := x.ufApps[sf.Name]
	for _, old := range prev {
		if len(old) != len(targs) {
			continue
		}
		for i := range targs {
			a, b := old[i], targs[i]
			if a.Sort != SArr || a.S == b.S {
				continue
			}
			key := "ext|" + a.S + "|" + b.S
			if a.S > b.S {
				key = "ext|" + b.S + "|" + a.S
			}
			if _, done := x.ctx.named[key]; done {
				continue
			}
			x.ctx.named[key] = TTrue
			k := x.ctx.Fresh("extk", SInt)
			x.ctx.Assume(Or(Eq(a, b), Neq(Select(a, k), Select(b, k))))
		}
	}
	if len(prev) < 12 {
		x.ufApps[sf.Name] = append(prev, targs)
	}
}

func (env *SpecEnv) coerce(v *Value, typ string, fn string) *Value {
	switch typ {
	case "seq":
		return seqVal(env.toSeq(v))
	case "bool":
		return mkBool(env.asBool(v))
	case "int", "byte":
		return mkInt(env.asInt(v))
	case "ref":
		if v.SK == "nil" {
			return mkInt(IntLit(0))
		}
		if v.T != nil && isIface(v.T) {
			return mkInt(v.C[1]) // the object behind the interface
		}
		return mkInt(v.C[0])
	case "", "any":
		return v
	}
	// a Go type name: keep value as is
	return v
}

func (x *Exec) revealed(name string) bool {
	if x.cur == nil || x.cur.fc == nil {
		return false
	}
	for _, r := range x.cur.fc.Reveals {
		if r == name {
			return true
		}
	}
	return false
}

// declareSpec emits the SMT declaration/definition of a spec function once per context.
func (x *Exec) declareSpec(sf *SpecFunc) {
	key := "spec|" + sf.Name
	if _, ok := x.ctx.named[key]; ok {
		return
	}
	x.ctx.named[key] = TTrue
	var psorts []string
	var pdecl []string
	vars := map[string]*Value{}
	for _, p := range sf.Params {
		ss := sortOfSpecType(p.Type)
		if ss == nil {
			panic(specErr{fmt.Sprintf("spec func %s: parameter %s has unsupported type %q for an SMT-level function", sf.Name, p.Name, p.Type)})
		}
		if p.Type == "seq" {
			a := Term{S: p.Name + "$a", Sort: SArr}
			l := Term{S: p.Name + "$l", Sort: SInt}
			pdecl = append(pdecl, fmt.Sprintf("(%s %s) (%s Int)", a.S, SArr, l.S))
			psorts = append(psorts, string(SArr), "Int")
			vars[p.Name] = seqVal(arrSeq(a, l))
		} else {
			t := Term{S: p.Name + "$p", Sort: ss[0]}
			pdecl = append(pdecl, fmt.Sprintf("(%s %s)", t.S, ss[0]))
			psorts = append(psorts, string(ss[0]))
			if ss[0] == SBool {
				vars[p.Name] = mkBool(t)
			} else {
				vars[p.Name] = mkInt(t)
			}
		}
	}
	if sf.Body == nil {
		defer x.releaseAxioms()
		x.ctx.Trust("uninterpreted spec function " + sf.Name)
		switch sf.Result {
		case "seq":
			x.ctx.Raw(fmt.Sprintf("(declare-fun %s$arr (%s) %s)", sf.Name, strings.Join(psorts, " "), SArr))
			x.ctx.Raw(fmt.Sprintf("(declare-fun %s$len (%s) Int)", sf.Name, strings.Join(psorts, " ")))
			// results are normalised sequences: non-negative length, zero outside [0, len)
			var bvs, args []string
			for i, ps := range psorts {
				bvs = append(bvs, fmt.Sprintf("(u$%d %s)", i, ps))
				args = append(args, fmt.Sprintf("u$%d", i))
			}
			app := sf.Name + "$arr"
			appl := sf.Name + "$len"
			if len(args) > 0 {
				app = "(" + app + " " + strings.Join(args, " ") + ")"
				appl = "(" + appl + " " + strings.Join(args, " ") + ")"
			}
			x.ctx.Raw(fmt.Sprintf("(assert (forall (%s (i$n Int)) (! (=> (or (< i$n 0) (>= i$n %s)) (= (select %s i$n) 0)) :pattern ((select %s i$n)))))", strings.Join(bvs, " "), appl, app, app))
			if len(args) > 0 {
				x.ctx.Raw(fmt.Sprintf("(assert (forall (%s) (! (<= 0 %s) :pattern (%s))))", strings.Join(bvs, " "), appl, appl))
			} else {
				x.ctx.Raw(fmt.Sprintf("(assert (<= 0 %s))", appl))
			}
		case "bool":
			x.ctx.Raw(fmt.Sprintf("(declare-fun %s (%s) Bool)", sf.Name, strings.Join(psorts, " ")))
		default:
			x.ctx.Raw(fmt.Sprintf("(declare-fun %s (%s) Int)", sf.Name, strings.Join(psorts, " ")))
		}
		return
	}
	if sf.Result == "seq" {
		panic(specErr{fmt.Sprintf("spec func %s: recursive/opaque sequence-valued functions are not supported", sf.Name)})
	}
	if sf.Opaque && !x.revealed(sf.Name) {
		rs0 := "Int"
		if sf.Result == "bool" {
			rs0 = "Bool"
		}
		x.ctx.Raw(fmt.Sprintf("(declare-fun %s (%s) %s)", sf.Name, strings.Join(psorts, " "), rs0))
		return
	}
	// make sure callees are declared first
	walkExpr(sf.Body, func(e Expr) {
		if c, ok := e.(*ECall); ok {
			if id, ok := c.Fn.(*EIdent); ok && id.Name != sf.Name {
				if g, ok := x.eng.specs[id.Name]; ok && (g.Rec || g.Body == nil || g.Opaque) {
					x.declareSpec(g)
				}
			}
		}
	})
	sub := &SpecEnv{x: x, vars: vars, st: nil, quant: 1}
	body := sub.eval(sf.Body)
	rs := "Int"
	var bt Term
	if sf.Result == "bool" {
		rs = "Bool"
		bt = sub.asBool(body)
	} else {
		bt = sub.asInt(body)
	}
	kw := "define-fun"
	if sf.Rec {
		kw = "define-fun-rec"
	}
	x.ctx.Raw(fmt.Sprintf("(%s %s (%s) %s %s)", kw, sf.Name, strings.Join(pdecl, " "), rs, bt.S))
}

// ---------- bit operations on mathematical integers

func andConst(a Term, k *big.Int) Term {
	if k.Sign() == 0 {
		return IntLit(0)
	}
	// mask of form 2^n - 1
	k1 := new(big.Int).Add(k, big.NewInt(1))
	if k1.BitLen()-1 == k.BitLen() && new(big.Int).And(k, k1).Sign() == 0 {
		return EMod(a, BigLit(k1))
	}
	// general: sum of selected bits
	var terms []Term
	for i := 0; i < k.BitLen(); i++ {
		if k.Bit(i) == 1 {
			// contiguous run
			j := i
			for j+1 < k.BitLen() && k.Bit(j+1) == 1 {
				j++
			}
			w := uint(j - i + 1)
			part := Mul(EMod(EDiv(a, BigLit(pow2(uint(i)))), BigLit(pow2(w))), BigLit(pow2(uint(i))))
			terms = append(terms, part)
			i = j
		}
	}
	t := terms[0]
	for _, u := range terms[1:] {
		t = Add(t, u)
	}
	return t
}

// bitop models |, ^, & on two non-constant operands by bit decomposition (w <= 16) or an uninterpreted function.
func bitop(c *Ctx, op string, a, b Term, w int) Term {
	if op == "|" {
		if av, ok := litVal(a); ok && av.Sign() == 0 {
			return b
		}
		if bv, ok := litVal(b); ok && bv.Sign() == 0 {
			return a
		}
	}
	if w <= 16 {
		var terms []Term
		for i := 0; i < w; i++ {
			ab := EMod(EDiv(a, BigLit(pow2(uint(i)))), IntLit(2))
			bb := EMod(EDiv(b, BigLit(pow2(uint(i)))), IntLit(2))
			var bit Term
			switch op {
			case "|":
				bit = Ite(Or(Eq(ab, IntLit(1)), Eq(bb, IntLit(1))), IntLit(1), IntLit(0))
			case "^":
				bit = Ite(Neq(ab, bb), IntLit(1), IntLit(0))
			default:
				bit = Ite(And(Eq(ab, IntLit(1)), Eq(bb, IntLit(1))), IntLit(1), IntLit(0))
			}
			terms = append(terms, Mul(bit, BigLit(pow2(uint(i)))))
		}
		t := terms[0]
		for _, u := range terms[1:] {
			t = Add(t, u)
		}
		return t
	}
	name := map[string]string{"|": "bvor$", "^": "bvxor$", "&": "bvand$"}[op]
	key := "decl|" + name
	if _, ok := c.named[key]; !ok {
		c.named[key] = TTrue
		c.Raw(fmt.Sprintf("(declare-fun %s (Int Int) Int)", name))
	}
	return App(SInt, name, a, b)
}
