package main

import (
	"encoding/json"
	"fmt"
	"os"
	"path/filepath"
)

// writeReplay records a failed obligation (with the solver's model when there is one).
func writeReplay(ld *loaded, prop string, o *Obligation) string {
	path := filepath.Join(verifDir, "replays", prop, sanitize(o.Name)+".json")
	rec := map[string]interface{}{
		"property":      prop,
		"obligation":    o.Name,
		"function":      o.Func,
		"kind":          o.Kind,
		"clause":        o.Comment,
		"position":      o.Pos,
		"solver_status": o.Result.Status,
		"solver":        o.Result.Solver,
		"solver_output": truncate(o.Result.Output, 4000),
		"model":         o.Result.Model,
		"replay":        o.replayNote,
		"confirmed":     o.replayConfirmed,
	}
	data, _ := json.MarshalIndent(rec, "", " ")
	os.WriteFile(path, data, 0o644)
	return path
}

func truncate(s string, n int) string {
	if len(s) > n {
		return s[:n] + "…"
	}
	return s
}

func cmdReplay(args []string) int {
	if len(args) < 1 {
		usage()
	}
	data, err := os.ReadFile(args[0])
	if err != nil {
		fmt.Fprintln(os.Stderr, err)
		return 2
	}
	fmt.Println(string(data))
	return 0
}

func cmdSelftest(args []string) int {
	fmt.Println("selftest: not implemented yet")
	return 0
}
