package main

// Replay of solver models against the real code: an in-package test is
// injected with `go test -overlay`, inputs are built from the model, the real
// function is called, and the observed outputs are fed back into the failing
// query. The violation is confirmed when the query stays satisfiable with the
// real outputs (or when the predicted panic is observed).

import (
	"encoding/hex"
	"encoding/json"
	"fmt"
	"go/types"
	"os"
	"os/exec"
	"path/filepath"
	"strings"

	"golang.org/x/tools/go/ssa"
)

const replayElems = 40

type InSpec struct {
	Name   string
	T      types.Type
	Kind   string // int, bool, bytes, string, ptr, struct, ghostbuf, unsupported
	Term   Term
	Len    Term
	Cap    Term
	Row    Term
	Off    Term
	Elems  []Term
	Fields []*InSpec
}

// buildInSpec describes an input value (entry state) for replay.
func (x *Exec) buildInSpec(name string, v *Value, st *State, depth int, flat *[]ModelVar) *InSpec {
	e := x.eng
	sp := &InSpec{Name: name, T: v.T}
	add := func(n string, t Term) { *flat = append(*flat, ModelVar{n, t}) }
	if v.T == nil {
		sp.Kind = "unsupported"
		return sp
	}
	switch u := v.T.Underlying().(type) {
	case *types.Basic:
		switch {
		case u.Info()&types.IsBoolean != 0:
			sp.Kind, sp.Term = "bool", v.C[0]
			add(name, v.C[0])
		case u.Info()&types.IsInteger != 0:
			sp.Kind, sp.Term = "int", v.C[0]
			add(name, v.C[0])
		case u.Info()&types.IsString != 0:
			sp.Kind, sp.Len, sp.Row, sp.Off = "string", v.C[2], v.C[0], v.C[1]
			add(name+"#len", v.C[2])
			add(name+"#off", v.C[1])
			for i := 0; i < replayElems; i++ {
				t := Select(v.C[0], Add(v.C[1], IntLit(int64(i))))
				sp.Elems = append(sp.Elems, t)
				add(fmt.Sprintf("%s[%d]", name, i), t)
			}
		default:
			sp.Kind = "unsupported"
		}
	case *types.Slice:
		l := e.layout(u.Elem())
		if len(l) == 1 && l[0].Sort == SInt && l[0].Kind == "int" {
			key, _ := e.heapKey("M", u.Elem(), 0)
			row := Select(x.heapGet(st, key), v.C[0])
			sp.Kind, sp.Term, sp.Len, sp.Cap, sp.Row, sp.Off = "ints", v.C[0], v.C[2], v.C[3], row, v.C[1]
			add(name+"#ref", v.C[0])
			add(name+"#len", v.C[2])
			add(name+"#cap", v.C[3])
			add(name+"#off", v.C[1])
			for i := 0; i < replayElems; i++ {
				t := Select(row, Add(v.C[1], IntLit(int64(i))))
				sp.Elems = append(sp.Elems, t)
				add(fmt.Sprintf("%s[%d]", name, i), t)
			}
		} else {
			sp.Kind = "unsupported"
			add(name+"#len", v.C[2])
		}
	case *types.Pointer:
		sp.Term = v.C[0]
		add(name+"#ref", v.C[0])
		el := u.Elem()
		if isGhostType(el) {
			g := x.Load(st, x.ptrOf(v))
			l := e.layout(el)
			if len(l) == 3 && l[0].Sort == SArr {
				sp.Kind, sp.Row, sp.Off, sp.Len = "ghostbuf", g.C[0], g.C[1], g.C[2]
				add(name+".len", g.C[2])
				add(name+"#off", g.C[1])
				for i := 0; i < replayElems; i++ {
					t := Select(g.C[0], Add(g.C[1], IntLit(int64(i))))
					sp.Elems = append(sp.Elems, t)
					add(fmt.Sprintf("%s.buf[%d]", name, i), t)
				}
			} else if len(l) == 1 && l[0].Sort == SInt {
				sp.Kind = "ghostint"
				sp.Len = g.C[0]
				add(name+".val", g.C[0])
			} else {
				sp.Kind = "unsupported"
			}
			return sp
		}
		if st2, ok := el.Underlying().(*types.Struct); ok && depth < 2 && v.P == nil {
			sp.Kind = "ptr"
			pv := x.Load(st, x.ptrOf(v))
			off := 0
			for i := 0; i < st2.NumFields(); i++ {
				n := len(e.layout(st2.Field(i).Type()))
				sp.Fields = append(sp.Fields, x.buildInSpec(name+"."+st2.Field(i).Name(), e.sub(pv, off, n, st2.Field(i).Type()), st, depth+1, flat))
				off += n
			}
		} else {
			sp.Kind = "unsupported"
		}
	case *types.Struct:
		if isGhostType(v.T) {
			sp.Kind = "unsupported"
			return sp
		}
		sp.Kind = "struct"
		off := 0
		for i := 0; i < u.NumFields(); i++ {
			n := len(e.layout(u.Field(i).Type()))
			sp.Fields = append(sp.Fields, x.buildInSpec(name+"."+u.Field(i).Name(), e.sub(v, off, n, u.Field(i).Type()), st, depth, flat))
			off += n
		}
	case *types.Interface:
		if isStreamIface(u) && e.bufferType() != nil {
			// a reader: replayed as a *bytes.Buffer holding the ghost stream
			g := x.Load(st, &Ptr{Heap: v.C[1], RootT: e.bufferType()})
			sp.Kind, sp.Row, sp.Off, sp.Len, sp.Term = "ghostbuf", g.C[0], g.C[1], g.C[2], v.C[0]
			sp.T = types.NewPointer(e.bufferType())
			add(name+".len", g.C[2])
			add(name+"#off", g.C[1])
			for i := 0; i < replayElems; i++ {
				t := Select(g.C[0], Add(g.C[1], IntLit(int64(i))))
				sp.Elems = append(sp.Elems, t)
				add(fmt.Sprintf("%s.buf[%d]", name, i), t)
			}
			return sp
		}
		sp.Kind = "iface"
		sp.Term = v.C[0]
		add(name+"#tag", v.C[0])
	default:
		sp.Kind = "unsupported"
	}
	return sp
}

type replayGen struct {
	pkg     *types.Package
	model   map[string]string
	imports map[string]bool
	pins    []string // SMT assertions pinning inputs to the replayed values
	bad     string
}

func (g *replayGen) mint(name string) (int64, bool) {
	s, ok := g.model[name]
	if !ok {
		return 0, false
	}
	return modelInt(s)
}

func (g *replayGen) typeName(t types.Type) string {
	return types.TypeString(t, func(p *types.Package) string {
		if p == g.pkg {
			return ""
		}
		g.imports[p.Path()] = true
		return p.Name()
	})
}

func smtInt(n int64) string { return IntLit(n).S }

func (g *replayGen) expr(sp *InSpec) string {
	switch sp.Kind {
	case "int":
		v, _ := g.mint(sp.Name)
		g.pins = append(g.pins, fmt.Sprintf("(assert (= %s %s))", sp.Term.S, smtInt(v)))
		return fmt.Sprintf("%s(%d)", g.typeName(sp.T), v)
	case "bool":
		s := g.model[sp.Name]
		g.pins = append(g.pins, fmt.Sprintf("(assert (= %s %s))", sp.Term.S, s))
		return fmt.Sprintf("%s(%s)", g.typeName(sp.T), s)
	case "ints", "string", "ghostbuf":
		n, _ := g.mint(sp.Name + "#len")
		if sp.Kind == "ghostbuf" {
			n, _ = g.mint(sp.Name + ".len")
		}
		if n < 0 || n > 1<<26 {
			g.bad = fmt.Sprintf("%s: length %d not replayable", sp.Name, n)
			return "nil"
		}
		g.pins = append(g.pins, fmt.Sprintf("(assert (= %s %s))", sp.Len.S, smtInt(n)))
		var els []string
		off, _ := g.mint(sp.Name + "#off")
		g.pins = append(g.pins, fmt.Sprintf("(assert (= %s %s))", sp.Off.S, smtInt(off)))
		rowLit := "((as const (Array Int Int)) 0)"
		for i := 0; i < replayElems && int64(i) < n; i++ {
			key := fmt.Sprintf("%s[%d]", sp.Name, i)
			if sp.Kind == "ghostbuf" {
				key = fmt.Sprintf("%s.buf[%d]", sp.Name, i)
			}
			v, _ := g.mint(key)
			if v != 0 {
				els = append(els, fmt.Sprintf("%d: %d", i, v))
				rowLit = fmt.Sprintf("(store %s %s %s)", rowLit, smtInt(off+int64(i)), smtInt(v))
			}
		}
		// the whole backing row is pinned (ground, no quantifier): cells not listed are zero
		g.pins = append(g.pins, fmt.Sprintf("(assert (= %s %s))", sp.Row.S, rowLit))
		switch sp.Kind {
		case "string":
			return fmt.Sprintf("%s(gvcBytes(%d, map[int]int64{%s}))", g.typeName(sp.T), n, strings.Join(els, ", "))
		case "ghostbuf":
			g.imports["bytes"] = true
			tn := g.typeName(derefT(sp.T))
			if tn == "bytes.Reader" {
				return fmt.Sprintf("bytes.NewReader(gvcBytes(%d, map[int]int64{%s}))", n, strings.Join(els, ", "))
			}
			return fmt.Sprintf("bytes.NewBuffer(gvcBytes(%d, map[int]int64{%s}))", n, strings.Join(els, ", "))
		}
		ref, _ := g.mint(sp.Name + "#ref")
		if ref == 0 {
			g.pins = append(g.pins, fmt.Sprintf("(assert (= %s 0))", sp.Term.S))
			return fmt.Sprintf("%s(nil)", g.typeName(sp.T))
		}
		g.pins = append(g.pins, fmt.Sprintf("(assert (not (= %s 0)))", sp.Term.S))
		el := sp.T.Underlying().(*types.Slice).Elem()
		return fmt.Sprintf("gvcInts[%s](%d, map[int]int64{%s})", g.typeName(el), n, strings.Join(els, ", "))
	case "ghostint":
		g.bad = sp.Name + ": big.Int inputs not replayable"
		return "nil"
	case "ptr":
		ref, _ := g.mint(sp.Name + "#ref")
		if ref == 0 {
			g.pins = append(g.pins, fmt.Sprintf("(assert (= %s 0))", sp.Term.S))
			return "nil"
		}
		g.pins = append(g.pins, fmt.Sprintf("(assert (not (= %s 0)))", sp.Term.S))
		return "&" + g.structLit(derefT(sp.T), sp.Fields)
	case "struct":
		return g.structLit(sp.T, sp.Fields)
	}
	g.bad = fmt.Sprintf("%s: input of type %v not replayable", sp.Name, sp.T)
	return "nil"
}

func (g *replayGen) structLit(t types.Type, fields []*InSpec) string {
	st := t.Underlying().(*types.Struct)
	var parts []string
	for i, f := range fields {
		fld := st.Field(i)
		if !fld.Exported() && fld.Pkg() != g.pkg {
			g.bad = fmt.Sprintf("unexported field %s of foreign struct", fld.Name())
			continue
		}
		parts = append(parts, fmt.Sprintf("%s: %s", fld.Name(), g.expr(f)))
	}
	return fmt.Sprintf("%s{%s}", g.typeName(t), strings.Join(parts, ", "))
}

// tryReplay runs the model of a failed obligation against the real code.
func tryReplay(ld *loaded, rep *FuncReport, o *Obligation) {
	if o.Result == nil || o.Result.Status != "sat" || rep.Fn == nil || rep.InSpecs == nil {
		return
	}
	fn := rep.Fn
	g := &replayGen{pkg: fn.Pkg.Pkg, model: o.Result.Model, imports: map[string]bool{"fmt": true, "testing": true, "encoding/hex": true}}
	var args []string
	for _, sp := range rep.InSpecs {
		args = append(args, g.expr(sp))
	}
	if g.bad != "" {
		o.replayNote = "not replayable: " + g.bad
		return
	}
	// call expression
	var call string
	sig := fn.Signature
	if sig.Recv() != nil {
		call = fmt.Sprintf("(%s).%s(%s)", args[0], fn.Name(), strings.Join(args[1:], ", "))
	} else {
		call = fmt.Sprintf("%s(%s)", fn.Name(), strings.Join(args, ", "))
	}
	nres := sig.Results().Len()
	var lhs []string
	var prints []string
	for i := 0; i < nres; i++ {
		lhs = append(lhs, fmt.Sprintf("r%d", i))
		prints = append(prints, fmt.Sprintf("\tgvcOut(%d, r%d)\n", i, i))
	}
	assign := ""
	if nres > 0 {
		assign = strings.Join(lhs, ", ") + " := "
	}
	var imps []string
	for p := range g.imports {
		imps = append(imps, fmt.Sprintf("\t%q\n", p))
	}
	src := fmt.Sprintf(`package %s

import (
%s)

func gvcBytes(n int, set map[int]int64) []byte {
	b := make([]byte, n)
	for i, v := range set {
		b[i] = byte(v)
	}
	return b
}

func gvcInts[T ~int | ~int8 | ~int16 | ~int32 | ~int64 | ~uint | ~uint8 | ~uint16 | ~uint32 | ~uint64](n int, set map[int]int64) []T {
	b := make([]T, n)
	for i, v := range set {
		b[i] = T(v)
	}
	return b
}

func gvcOut(i int, v any) {
	switch x := v.(type) {
	case nil:
		fmt.Printf("GVC-OUT %%d nil\n", i)
	case error:
		fmt.Printf("GVC-OUT %%d nonnil-error %%q\n", i, x.Error())
	case []byte:
		if x == nil {
			fmt.Printf("GVC-OUT %%d bytes-nil\n", i)
		} else {
			fmt.Printf("GVC-OUT %%d bytes %%s.\n", i, hex.EncodeToString(x))
		}
	case string:
		fmt.Printf("GVC-OUT %%d string %%s.\n", i, hex.EncodeToString([]byte(x)))
	case bool:
		fmt.Printf("GVC-OUT %%d bool %%v\n", i, x)
	case int, int8, int16, int32, int64, uint, uint8, uint16, uint32, uint64:
		fmt.Printf("GVC-OUT %%d int %%d\n", i, x)
	default:
		fmt.Printf("GVC-OUT %%d other %%T\n", i, v)
	}
}

func TestGvcReplay(t *testing.T) {
	defer func() {
		if r := recover(); r != nil {
			fmt.Printf("GVC-PANIC %%v\n", r)
		}
	}()
	_ = hex.EncodeToString
	%s%s
%s	fmt.Println("GVC-DONE")
}
`, fn.Pkg.Pkg.Name(), strings.Join(imps, ""), assign, call, strings.Join(prints, ""))
	dir := getScratch()
	fileSeq.Lock()
	fileSeq.n++
	id := fileSeq.n
	fileSeq.Unlock()
	testFile := filepath.Join(dir, fmt.Sprintf("replay%d_test.go", id))
	os.WriteFile(testFile, []byte(src), 0o644)
	rel := strings.TrimPrefix(fn.Pkg.Pkg.Path(), modPath)
	pkgDir := filepath.Join(repoDir, rel)
	ov := map[string]map[string]string{"Replace": {filepath.Join(pkgDir, "zz_gvc_replay_test.go"): testFile}}
	ovData, _ := json.Marshal(ov)
	ovFile := filepath.Join(dir, fmt.Sprintf("ov%d.json", id))
	os.WriteFile(ovFile, ovData, 0o644)
	cmd := exec.Command("sh", "-c", fmt.Sprintf("ulimit -v 24000000; cd %s && go test -overlay %s -v -vet=off -count=1 -timeout 60s -run '^TestGvcReplay$' .%s/", repoDir, ovFile, rel))
	out, _ := cmd.CombinedOutput()
	outs := string(out)
	o.replaySrc = src
	o.replayOut = truncate(outs, 3000)
	if strings.Contains(outs, "GVC-PANIC") {
		line := outs[strings.Index(outs, "GVC-PANIC"):]
		line = firstLine(line)
		switch o.Kind {
		case "bounds", "nil", "div", "make", "panic", "assert", "call":
			o.replayConfirmed = true
			o.replayNote = "real code panics on the model's input: " + line
		default:
			o.replayConfirmed = true
			o.replayNote = "real code panics on the model's input (obligation kind " + o.Kind + "): " + line
		}
		return
	}
	if strings.Contains(outs, "fatal error:") || strings.Contains(outs, "panic:") {
		i := strings.Index(outs, "fatal error:")
		if i < 0 {
			i = strings.Index(outs, "panic:")
		}
		o.replayConfirmed = true
		o.replayNote = "real code crashes on the model's input: " + firstLine(outs[i:])
		return
	}
	if !strings.Contains(outs, "GVC-DONE") {
		o.replayNote = "replay did not complete: " + truncate(outs, 400)
		return
	}
	switch o.Kind {
	case "ensures":
	default:
		o.replayNote = "real code returned normally on the model's input; obligation kind " + o.Kind + " has no executable check"
		return
	}
	// feed observed outputs back into the query
	extra := append([]string(nil), g.pins...)
	for _, line := range strings.Split(outs, "\n") {
		if !strings.HasPrefix(line, "GVC-OUT ") {
			continue
		}
		f := strings.Fields(line)
		if len(f) < 3 {
			continue
		}
		var idx int
		fmt.Sscanf(f[1], "%d", &idx)
		if idx >= len(o.outVals) {
			continue
		}
		ov := o.outVals[idx]
		switch f[2] {
		case "nil":
			extra = append(extra, fmt.Sprintf("(assert (= %s 0))", ov.C[0].S))
		case "nonnil-error", "other":
			extra = append(extra, fmt.Sprintf("(assert (not (= %s 0)))", ov.C[0].S))
		case "bool":
			extra = append(extra, fmt.Sprintf("(assert (= %s %s))", ov.C[0].S, f[3]))
		case "int":
			var v int64
			fmt.Sscanf(f[3], "%d", &v)
			extra = append(extra, fmt.Sprintf("(assert (= %s %s))", ov.C[0].S, smtInt(v)))
		case "bytes-nil":
			extra = append(extra, fmt.Sprintf("(assert (= %s 0))", ov.C[0].S), fmt.Sprintf("(assert (= %s 0))", ov.C[2].S))
		case "bytes", "string":
			hx := strings.TrimSuffix(f[3], ".")
			b, _ := hex.DecodeString(hx)
			if len(b) > 200000 {
				o.replayNote = "output too long to feed back"
				return
			}
			var row, off, ln Term
			if f[2] == "string" {
				row, off, ln = ov.C[0], ov.C[1], ov.C[2]
			} else {
				if o.outRow == nil || o.outRow[idx].S == "" {
					continue
				}
				row, off, ln = o.outRow[idx], ov.C[1], ov.C[2]
				extra = append(extra, fmt.Sprintf("(assert (not (= %s 0)))", ov.C[0].S))
			}
			extra = append(extra, fmt.Sprintf("(assert (= %s %d))", ln.S, len(b)))
			for i, bv := range b {
				extra = append(extra, fmt.Sprintf("(assert (= (select %s (+ %s %d)) %d))", row.S, off.S, i, bv))
			}
		}
	}
	text := o.smtText(extra, nil)
	r := raceSolve(text, 20, nil)
	switch r.Status {
	case "sat":
		o.replayConfirmed = true
		o.replayNote = "confirmed: the postcondition is false for the outputs the real code produced on the model's input"
	case "unsat":
		o.replayNote = "model not reproduced: real outputs on this input satisfy the clause (or differ from the engine's prediction)"
	default:
		o.replayNote = "replay query undecided: " + r.Status
	}
}

// writeReplay records a failed obligation (with the solver's model when there is one).
func writeReplay(ld *loaded, prop string, o *Obligation) string {
	path := filepath.Join(verifDir, "replays", prop, sanitize(o.Name)+".json")
	rec := map[string]interface{}{
		"property":        prop,
		"obligation":      o.Name,
		"function":        o.Func,
		"kind":            o.Kind,
		"clause":          o.Comment,
		"position":        o.Pos,
		"solver_status":   o.Result.Status,
		"solver":          o.Result.Solver,
		"solver_output":   truncate(o.Result.Output, 4000),
		"model":           o.Result.Model,
		"replay_verdict":  o.replayNote,
		"confirmed":       o.replayConfirmed,
		"replay_test":     o.replaySrc,
		"replay_test_out": o.replayOut,
	}
	data, _ := json.MarshalIndent(rec, "", " ")
	os.WriteFile(path, data, 0o644)
	return path
}

func truncate(s string, n int) string {
	if len(s) > n {
		return s[:n] + "…"
	}
	return s
}

func cmdReplay(args []string) int {
	if len(args) < 1 {
		usage()
	}
	data, err := os.ReadFile(args[0])
	if err != nil {
		fmt.Fprintln(os.Stderr, err)
		return 2
	}
	var rec map[string]interface{}
	if json.Unmarshal(data, &rec) != nil {
		fmt.Println(string(data))
		return 2
	}
	fmt.Printf("obligation: %v\nclause: %v\nposition: %v\nsolver: %v (%v)\nverdict: %v\n", rec["obligation"], rec["clause"], rec["position"], rec["solver"], rec["solver_status"], rec["replay_verdict"])
	src, _ := rec["replay_test"].(string)
	if src == "" {
		fmt.Println("no executable replay recorded for this obligation (no-failing-input-found)")
		return 0
	}
	// re-run the recorded test against the current tree
	fn, _ := rec["function"].(string)
	pkg := fn
	if i := strings.Index(fn, "."); i >= 0 {
		pkg = fn[:i]
	}
	dir := getScratch()
	testFile := filepath.Join(dir, "replay_test.go")
	os.WriteFile(testFile, []byte(src), 0o644)
	// find package dir by name
	var pkgDir string
	filepath.WalkDir(repoDir, func(p string, d os.DirEntry, err error) error {
		if err == nil && d.IsDir() && d.Name() == pkg && pkgDir == "" {
			pkgDir = p
		}
		return nil
	})
	if pkgDir == "" {
		fmt.Println("package directory not found for", pkg)
		return 2
	}
	ov := map[string]map[string]string{"Replace": {filepath.Join(pkgDir, "zz_gvc_replay_test.go"): testFile}}
	ovData, _ := json.Marshal(ov)
	ovFile := filepath.Join(dir, "ov.json")
	os.WriteFile(ovFile, ovData, 0o644)
	rel, _ := filepath.Rel(repoDir, pkgDir)
	cmd := exec.Command("sh", "-c", fmt.Sprintf("cd %s && go test -overlay %s -v -vet=off -count=1 -timeout 60s -run '^TestGvcReplay$' ./%s/", repoDir, ovFile, rel))
	out, _ := cmd.CombinedOutput()
	fmt.Println(string(out))
	return 0
}

func cmdSelftest(args []string) int {
	fmt.Println("selftest: use /verif/selftest/run.sh")
	return 0
}

var _ = ssa.NaiveForm
