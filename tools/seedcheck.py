#!/usr/bin/env python3
"""seedcheck.py <seed-dir> [--keep-as <id>] : confirm a seeded change (suite passes, demo fails with / passes without),
then run the gvc check of its property against the changed tree. Works on scratch copies under /var/tmp."""
import json, os, re, shutil, subprocess, sys, tempfile
V = os.path.dirname(os.path.dirname(os.path.abspath(__file__)))
ENV = dict(os.environ, GOFLAGS="-mod=mod", GOPROXY="off", GOSUMDB="off", GOTOOLCHAIN="local")
def sh(cmd, cwd, env=ENV, timeout=1200):
    r = subprocess.run(cmd, shell=True, cwd=cwd, env=env, capture_output=True, text=True, timeout=timeout)
    return r.returncode, r.stdout + r.stderr
def demo_dir(seed):
    src = open(os.path.join(seed, "demo_test.go")).read()
    meta = json.load(open(os.path.join(seed, "meta.json")))
    m = re.search(r"^package (\w+)", src, re.M)
    pkg = m.group(1).removesuffix("_test")
    # directory: first from a comment mentioning a path, else from meta files, else by package name
    for f in meta.get("files", []):
        d = os.path.dirname(f)
        if os.path.basename(d) == pkg or pkg in d:
            cand = d
            break
    else:
        cand = None
    c = re.search(r"(?:directory|copy(?:ied)? (?:in)?to|place in|goes in)[^\n]*?([\w./-]*%s)/?" % pkg, src)
    if c: cand = c.group(1).lstrip("./")
    return (cand or pkg), meta
def main():
    seed = os.path.abspath(sys.argv[1])
    d, meta = demo_dir(seed)
    prop = meta["property"]
    base = tempfile.mkdtemp(prefix="gvc-seed-", dir="/var/tmp")
    res = {"seed": seed, "property": prop}
    try:
        clean = os.path.join(base, "clean"); mut = os.path.join(base, "mut")
        for t in (clean, mut):
            subprocess.run(["rsync", "-a", "--exclude", ".git", "/repo/", t + "/"], check=True)
        rc, out = sh(f"patch -p1 -s -i {seed}/patch.diff", mut)
        res["patch_applies"] = rc == 0
        if rc != 0:
            print(json.dumps(res)); print(out); return 1
        rc, out = sh("go1.26 test -vet=off -count=1 ./... 2>&1 | grep -E '^(FAIL\t|--- FAIL|panic|ok )' | grep -v gmrtd-reader", mut)
        res["suite_passes_with_change"] = ("FAIL" not in out and "panic" not in out and out.count("ok ") > 15)
        res["suite_output"] = out[-600:]
        for t, key in ((mut, "demo_fails_with_change"), (clean, "demo_passes_without_change")):
            tgt = os.path.join(t, d, "zz_seed_demo_test.go")
            shutil.copy(os.path.join(seed, "demo_test.go"), tgt)
            rc, out = sh(f"go1.26 test -vet=off -count=1 ./{d}/ 2>&1 | tail -30", t)
            failed = "FAIL" in out
            res[key] = failed if t == mut else (not failed and "ok" in out)
            res[key + "_out"] = out[-500:]
            os.remove(tgt)
        env = dict(os.environ, GVC_REPO=mut, GVC_VERIF=os.path.join(base, "vout"))
        os.makedirs(env["GVC_VERIF"])
        shutil.copy(os.path.join(V, "known_findings.jsonl"), env["GVC_VERIF"])
        os.symlink(os.path.join(V, "specs"), os.path.join(env["GVC_VERIF"], "specs"))
        r = subprocess.run([os.path.join(V, "bin/gvc"), "check", prop], capture_output=True, text=True, env=env)
        lines = [l for l in (r.stdout + r.stderr).splitlines() if l.startswith(("FAILED", "VIOLATION", "gvc:", "  replay", "CONTRACT", "OUT-OF", "LOAD", "KNOWN"))]
        res["gvc_exit"] = r.returncode
        res["gvc_output"] = lines
        res["detected"] = r.returncode == 1 and any(l.startswith("VIOLATION") for l in lines)
        print(json.dumps({k: v for k, v in res.items() if not k.endswith("_out") and k != "suite_output"}, indent=1))
        if not (res["suite_passes_with_change"] and res["demo_fails_with_change"] and res["demo_passes_without_change"]):
            print("CONFIRMATION FAILED"); print(res.get("suite_output")); print(res.get("demo_fails_with_change_out")); print(res.get("demo_passes_without_change_out"))
        if "--keep-as" in sys.argv:
            sid = sys.argv[sys.argv.index("--keep-as") + 1]
            dst = os.path.join(V, "seeded", sid)
            os.makedirs(dst, exist_ok=True)
            for f in ("patch.diff", "demo_test.go"):
                shutil.copy(os.path.join(seed, f), dst)
            meta["confirmed_by_verif"] = {k: res[k] for k in ("suite_passes_with_change", "demo_fails_with_change", "demo_passes_without_change")}
            meta["demo_package_dir"] = d
            meta["gvc_detected"] = res["detected"]
            meta["gvc_output"] = lines
            meta["what_i_ran"] = ["rsync /repo to scratch copy; patch -p1 < patch.diff", "go1.26 test -vet=off -count=1 ./... (with change)", f"go1.26 test ./{d}/ with demo_test.go (with and without change)", f"GVC_REPO=<scratch> bin/gvc check {prop}"]
            json.dump(meta, open(os.path.join(dst, "meta.json"), "w"), indent=1)
        return 0
    finally:
        shutil.rmtree(base, ignore_errors=True)
sys.exit(main())
