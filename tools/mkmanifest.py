#!/usr/bin/env python3
"""Regenerates /verif/MANIFEST.json from tools/claims.json (one entry per claimed property)."""
import json, subprocess, os
V = os.path.dirname(os.path.dirname(os.path.abspath(__file__)))
props = {l['id']: l for l in map(json.loads, open(V + '/properties.jsonl'))}
claims = json.load(open(V + '/tools/claims.json'))
hooks = subprocess.run(["git", "-C", "/repo", "log", "--format=%h %s"], capture_output=True, text=True).stdout.splitlines()
hook_commits = [l.split()[0] for l in hooks if "verif hook" in l]
checks = []
for pid in sorted(claims["claimed"]):
    c = claims["claimed"][pid]
    checks.append({
        "property_id": pid,
        "quick_cmd": f"./check.sh {pid} quick",
        "thorough_cmd": f"./check.sh {pid} thorough",
        "evidence_file": f"/verif/evidence/{pid}.json",
        "replay_cmd_template": "./bin/gvc replay {path}",
        "engine": "gvc",
        "level_claimed": {"category": "proof", "text": c["text"], "design_ref": c.get("ref", "DESIGN.md §5 " + pid)},
        "level_note": c["note"],
        "technique": "contract-based deductive verification: requires/ensures/loop-invariant/assigns contracts on the real functions, WP-style VCs generated from go/ssa of /repo, discharged by z3 / cvc5",
    })
na = [{"property_id": p, "reason": claims["not_applicable"].get(p, "no contract written yet in this round; see DESIGN.md §10")} for p in sorted(props) if p not in claims["claimed"]]
m = {
    "version": 1,
    "setup_cmd": "./build.sh",
    "hooks": {
        "guard": "verif",
        "enable": "go build -tags verif ./...   (contract files zz_contracts_verif.go are comment-only and read directly by gvc; document/zz_lemmas_verif.go holds one specification-only function, compiled only under the tag; gvc loads /repo with -tags verif)",
        "baseline_off_cmd": "cd /repo && GOFLAGS=-mod=mod GOPROXY=off GOSUMDB=off GOTOOLCHAIN=local go1.26 test -json -vet=off -count=1 -timeout 25m ./...",
        "source_commits": hook_commits,
        "add_only": True,
    },
    "engines": [{"name": "gvc", "path": "/verif/cmd/gvc", "serves_properties": sorted(claims["claimed"]),
                 "kind_free_text": "self-written verification-condition generator over go/ssa (x/tools v0.50.0, go1.26.8) with a Gobra-style contract language kept in comment-only files behind build tag verif; back ends z3 4.8.12, z3 5.1.0, cvc5 1.0.3 raced per obligation; sat models replayed on the real code with go test -overlay"}],
    "checks": checks,
    "notes": claims.get("notes", ""),
    "not_applicable": na,
}
json.dump(m, open(V + '/MANIFEST.json', 'w'), indent=1)
print("claimed:", sorted(claims["claimed"]), "not_applicable:", len(na))
