#!/usr/bin/env python3
"""seedrun.py [seed-id ...] : run the gvc check of each kept seeded change (seeded/<id>/patch.diff) against a scratch
copy of /repo with the change applied; report which are detected. Scratch copies live under /var/tmp and are removed."""
import json, os, shutil, subprocess, sys, tempfile, glob, concurrent.futures
V = os.path.dirname(os.path.dirname(os.path.abspath(__file__)))
def run(sid):
    seed = os.path.join(V, "seeded", sid)
    meta = json.load(open(os.path.join(seed, "meta.json")))
    prop = meta["property"]
    base = tempfile.mkdtemp(prefix="gvc-seedrun-", dir="/var/tmp")
    try:
        mut = os.path.join(base, "mut")
        subprocess.run(["rsync", "-a", "--exclude", ".git", "/repo/", mut + "/"], check=True)
        r = subprocess.run(f"patch -p1 -s -i {seed}/patch.diff", shell=True, cwd=mut, capture_output=True, text=True)
        if r.returncode != 0:
            return sid, prop, "PATCH-FAILS", [r.stdout + r.stderr]
        env = dict(os.environ, GVC_REPO=mut, GVC_VERIF=os.path.join(base, "vout"), GVC_NO_REPLAY=os.environ.get("GVC_NO_REPLAY", ""))
        os.makedirs(env["GVC_VERIF"])
        shutil.copy(os.path.join(V, "known_findings.jsonl"), env["GVC_VERIF"])
        os.symlink(os.path.join(V, "specs"), os.path.join(env["GVC_VERIF"], "specs"))
        props = [prop] + [p for p in meta.get("also_check", [])]
        lines, det = [], False
        for p in props:
            r = subprocess.run([os.path.join(V, "bin/gvc"), "check", p], capture_output=True, text=True, env=env)
            ls = [l for l in (r.stdout + r.stderr).splitlines() if l.startswith(("FAILED", "VIOLATION", "gvc:", "CONTRACT", "OUT-OF", "LOAD"))]
            lines += ls
            det = det or (r.returncode == 1 and any(l.startswith("VIOLATION") for l in ls))
        return sid, prop, ("DETECTED" if det else "MISSED"), lines
    finally:
        shutil.rmtree(base, ignore_errors=True)
def main():
    ids = sys.argv[1:] or sorted(os.path.basename(d) for d in glob.glob(os.path.join(V, "seeded", "*")) if os.path.isdir(d))
    miss = 0
    with concurrent.futures.ThreadPoolExecutor(max_workers=int(os.environ.get("SEED_JOBS", "2"))) as ex:
        for sid, prop, verdict, lines in ex.map(run, ids):
            print(f"{verdict:10s} {sid} ({prop})")
            for l in lines:
                if verdict != "DETECTED" or l.startswith("FAILED"):
                    print("     " + l[:220])
            if verdict != "DETECTED":
                miss += 1
            sys.stdout.flush()
    print(f"seedrun: {len(ids)-miss}/{len(ids)} detected")
main()
