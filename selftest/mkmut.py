#!/usr/bin/env python3
"""mkmut.py <name> '<expect header>' <relfile> <old> <new> : create a mutant patch by exact string replacement."""
import sys, os, difflib
name, hdr, rel, old, new = sys.argv[1:6]
src = open(os.path.join("/repo", rel)).read()
assert src.count(old) == 1, f"old string occurs {src.count(old)} times"
mut = src.replace(old, new)
diff = "".join(difflib.unified_diff(src.splitlines(True), mut.splitlines(True), "a/" + rel, "b/" + rel))
out = os.path.join(os.path.dirname(os.path.abspath(__file__)), "mutants", name + ".patch")
open(out, "w").write("# " + hdr + "\n" + diff)
print("wrote", out)
