#!/usr/bin/env python3
"""Must-fail / must-pass self test of the gvc checks.

Each mutant is <name>.patch with a header line '# expect: <PROP> <substring of the failing obligation>'
(must-fail) or '# expect-pass: <PROP>' (harmless refactoring that must stay green).
Patches are applied to a scratch copy of /repo under /var/tmp (removed afterwards)."""
import os, subprocess, sys, shutil, tempfile, glob, re, concurrent.futures

VERIF = os.path.dirname(os.path.dirname(os.path.abspath(__file__)))
REPO = os.environ.get("GVC_REPO", "/repo")

def run_one(patch):
    hdr = open(patch).read().splitlines()
    exp = [l for l in hdr if l.startswith("# expect")]
    if not exp:
        return (patch, False, "no expectation header")
    m = re.match(r"# (expect|expect-pass): (\S+)\s*(.*)", exp[0])
    mode, prop, sub = m.group(1), m.group(2), m.group(3).strip()
    d = tempfile.mkdtemp(prefix="gvc-mut-", dir="/var/tmp")
    try:
        subprocess.run(["rsync", "-a", "--exclude", ".git", REPO + "/", d + "/"], check=True)
        r = subprocess.run(["patch", "-p1", "-s", "-d", d, "-i", patch], capture_output=True, text=True)
        if r.returncode != 0:
            return (patch, False, "patch does not apply: " + r.stdout + r.stderr)
        env = dict(os.environ, GVC_REPO=d, GVC_VERIF=os.path.join(d, ".verif-out"))
        os.makedirs(env["GVC_VERIF"], exist_ok=True)
        shutil.copy(os.path.join(VERIF, "known_findings.jsonl"), env["GVC_VERIF"])
        os.symlink(os.path.join(VERIF, "specs"), os.path.join(env["GVC_VERIF"], "specs"))
        r = subprocess.run([os.path.join(VERIF, "bin/gvc"), "check", prop], capture_output=True, text=True, env=env)
        out = r.stdout + r.stderr
        if mode == "expect":
            ok = r.returncode == 1 and "VIOLATION property=" + prop in out and (sub == "" or any(sub in l for l in out.splitlines() if l.startswith("FAILED-OBLIGATION")))
        else:
            ok = r.returncode == 0 and "VIOLATION" not in out
        tail = "\n".join(l for l in out.splitlines() if l.startswith(("FAILED", "VIOLATION", "gvc:", "CONTRACT", "OUT-OF", "LOAD")))
        return (patch, ok, tail)
    finally:
        shutil.rmtree(d, ignore_errors=True)

def main():
    pats = [os.path.abspath(p) for p in sys.argv[1:]] or sorted(glob.glob(os.path.join(VERIF, "selftest/mutants/*.patch")))
    bad = 0
    with concurrent.futures.ThreadPoolExecutor(max_workers=3) as ex:
        for patch, ok, info in ex.map(run_one, pats):
            print(("PASS " if ok else "FAIL ") + os.path.basename(patch))
            if not ok:
                bad += 1
                print("   " + info.replace("\n", "\n   "))
    print(f"selftest: {len(pats)-bad}/{len(pats)} as expected")
    sys.exit(1 if bad else 0)

if __name__ == "__main__":
    main()
