#!/bin/sh
# Builds /verif/bin/gvc offline.
set -e
cd "$(dirname "$0")"
export PATH=/opt/veriftools/go1.26.8/bin:$PATH GOFLAGS=-mod=mod GOPROXY=off GOSUMDB=off GOTOOLCHAIN=local CGO_ENABLED=0
mkdir -p bin
go build -o bin/gvc ./cmd/gvc
