#!/bin/sh
# usage: check.sh <PROPERTY> [quick|thorough]
# Rebuilds gvc if needed and checks one property against /repo's working tree.
cd "$(dirname "$0")"
[ -x bin/gvc ] || ./build.sh || exit 2
tier="${2:-${VERIF_TIER:-quick}}"
exec ./bin/gvc check "$1" --tier "$tier"
